//! Driver: fans cases out over worker processes, one sacrificial child per simulated run,
//! aggregates coverage, minimises and replays violations.
use crate::report;
use crate::scen::{self, Scenario, Tier};
use crate::{hist, sim};
use serde_json::{json, Map, Value};
use std::collections::{BTreeMap, BTreeSet};
use std::time::Instant;

#[derive(Clone, Debug, PartialEq)]
pub enum Verdict {
    Ok,
    Violation,
    /// child died without producing a result
    Died,
    HarnessError,
}

#[derive(Clone, Debug)]
pub struct CaseResult {
    pub verdict: Verdict,
    pub violations: Vec<(String, String)>,
    pub body: Value,
    pub note: String,
}
impl CaseResult {
    pub fn has_sig(&self, sig: &str) -> bool {
        self.violations.iter().any(|v| v.0 == sig)
    }
    pub fn trace_hash(&self) -> String {
        self.body["trace_hash"].as_str().unwrap_or("").to_string()
    }
}

fn fnv(s: &str) -> u64 {
    let mut h = 0xcbf29ce484222325u64;
    for b in s.bytes() {
        h ^= b as u64;
        h = h.wrapping_mul(0x100000001b3);
    }
    h
}

/// where a child's stderr goes on the sanitizer build (sanitizer reports are read back from it)
fn stderr_path() -> String {
    format!("/dev/shm/ipcsim-stderr-{}", unsafe { libc::getppid() })
}
/// Body of the sacrificial child: run one case, write the result, exit.
fn child_main(sc: &'static dyn Scenario, params: &Value, tmpdir: &str) -> ! {
    unsafe {
        libc::alarm(if scen::VARIANT == "asan" { 240 } else { 120 });
        let lim = libc::rlimit { rlim_cur: 16000, rlim_max: 20000 };
        libc::setrlimit(libc::RLIMIT_NOFILE, &lim);
        // a run must not be able to exhaust the machine (e.g. a corrupt length prefix turned into a
        // multi-terabyte allocation): the sanitizer build reserves terabytes of address space, so it
        // is bounded through ASAN_OPTIONS (hard_rss_limit_mb) instead
        if scen::VARIANT != "asan" {
            let mem = libc::rlimit { rlim_cur: 6 << 30, rlim_max: 6 << 30 };
            libc::setrlimit(libc::RLIMIT_AS, &mem);
        }
        // keep the library's own diagnostics out of the check's output
        let errpath = std::ffi::CString::new(stderr_path()).unwrap();
        let devnull = if scen::VARIANT == "asan" { libc::open(errpath.as_ptr(), libc::O_WRONLY | libc::O_CREAT | libc::O_TRUNC, 0o600) } else { libc::open(b"/dev/null\0".as_ptr() as *const _, libc::O_WRONLY) };
        if devnull >= 0 && std::env::var("IPCSIM_STDERR").is_err() {
            libc::dup2(devnull, 2);
            libc::close(devnull);
        }
    }
    std::env::set_var("TMPDIR", tmpdir);
    std::env::set_var("RUST_BACKTRACE", "0");
    hist::install_panic_hook();
    let r = std::panic::catch_unwind(std::panic::AssertUnwindSafe(|| sc.run(params)));
    let out = match r {
        Ok(o) => o,
        Err(_) => {
            report::harness_error("scenario main thread panicked");
            unsafe { libc::_exit(4) }
        },
    };
    let gl = sim::g();
    let st = &gl.stats;
    let stats = json!({
        "f_enobufs": st.f_enobufs, "f_txerr": st.f_txerr, "f_eintr": st.f_eintr, "f_short_batch": st.f_short,
        "f_fderr": st.f_fderr, "f_poll_eintr": st.f_poll_eintr, "f_timejump": st.f_timejump, "f_corrupt": st.f_corrupt,
        "f_crash": st.f_crash, "f_close_stdin": st.f_close_stdin, "f_fd_limit": st.f_fd_limit, "f_exec_child": st.f_exec_child, "f_fork_real": st.f_fork_real, "inherited_fds": st.inherited_fds,
        "p_send_blocked": st.p_send_blocked, "p_recv_blocked": st.p_recv_blocked, "p_followup_blocked": st.p_followup_blocked,
        "p_fragmented_send": st.p_frag_send, "p_followup_tx": st.p_followup_tx, "p_epoll_full_batch": st.p_epoll_full,
        "p_epoll_blocked": st.p_epoll_blocked, "p_poll_timeout": st.p_poll_timeout, "p_ctrunc": st.p_ctrunc,
        "p_trunc": st.p_trunc, "p_poisoned_buffers": st.p_poisoned, "p_hook_sched_points": st.p_hook_points, "p_clock_jumps": st.p_clock_jumps, "p_futex_wait": st.p_futex_wait, "p_stale_probe": st.p_stale,
        "late_calls": st.late_calls, "discipline_breaks": st.discipline_breaks, "bad_close": st.bad_close,
        "tx_ok": st.tx_ok, "rx_ok": st.rx_ok, "fds_passed": st.fds_passed, "shared_maps_total": st.shared_maps_total,
        "sigpipe": sim::SIGPIPES.load(std::sync::atomic::Ordering::SeqCst),
    });
    let viols: Vec<Value> = out.violations.iter().map(|v| json!({"sig": v.sig, "detail": v.detail})).collect();
    let devs: Vec<Value> = gl.deviations.iter().map(|d| json!([d.0, d.1])).collect();
    let mut body = json!({
        "violations": viols,
        "probes": out.probes,
        "nontrivial": out.nontrivial,
        "sample": out.sample,
        "trace_hash": format!("{:016x}", gl.trace_hash),
        "sched_hash": format!("{:016x}", gl.sched_hash),
        "steps": gl.steps,
        "vns": gl.clock_ns - 1_000_000_000_000,
        "threads": gl.stats.max_threads.max(1),
        "deviations": devs,
        "stats": stats,
        "panics": hist::panics().iter().map(|p| format!("[{}] {} :: {}", p.label, p.loc, p.msg)).collect::<Vec<_>>(),
    });
    if !out.violations.is_empty() || params["sim"]["log_seam"].as_bool().unwrap_or(false) {
        body["history_tail"] = json!(hist::tail(60));
        let sl = &gl.seam_log;
        let from = sl.len().saturating_sub(400);
        body["seam_tail"] = json!(sl[from..]
            .iter()
            .filter(|e| e.kind != sim::S_PICK)
            .map(|e| format!("step {} t{} {} a={} b={} r={}", e.step, e.tid, sim::kind_name(e.kind), e.a, e.b, e.r))
            .collect::<Vec<_>>());
    }
    if let Ok(path) = std::env::var("IPCSIM_DUMP") {
        let mut txt = String::new();
        for e in &gl.seam_log {
            txt += &format!("step {} t{} {} a={} b={} r={}\n", e.step, e.tid, sim::kind_name(e.kind), e.a, e.b, e.r);
        }
        let _ = std::fs::write(path, txt);
    }
    report::write_result(&body.to_string());
    unsafe { libc::_exit(0) }
}

pub struct Runner {
    pub sc: &'static dyn Scenario,
    pub tmpdir: String,
}
impl Runner {
    pub fn new(sc: &'static dyn Scenario) -> Runner {
        report::create();
        let tmpdir = format!("/dev/shm/ipcsim-{}", unsafe { libc::getpid() });
        Runner { sc, tmpdir }
    }
    /// Run one case in a fresh child process.
    pub fn run_case(&self, params: &Value) -> CaseResult {
        report::reset();
        let _ = std::fs::remove_dir_all(&self.tmpdir);
        std::fs::create_dir_all(&self.tmpdir).ok();
        let pid = unsafe { libc::fork() };
        if pid == 0 {
            child_main(self.sc, params, &self.tmpdir);
        }
        if pid < 0 {
            return CaseResult { verdict: Verdict::HarnessError, violations: vec![], body: Value::Null, note: "fork failed".into() };
        }
        let mut st = 0;
        unsafe {
            libc::waitpid(pid, &mut st, 0);
        }
        let leftovers: Vec<String> =
            std::fs::read_dir(&self.tmpdir).map(|d| d.filter_map(|e| e.ok()).map(|e| e.file_name().to_string_lossy().to_string()).collect()).unwrap_or_default();
        let _ = std::fs::remove_dir_all(&self.tmpdir);
        let res = report::read_result();
        let err = report::read_error();
        let panics = report::read_panics().unwrap_or_default();
        if let Some(e) = err {
            let step_budget = e.contains("step budget");
            if let Some(v) = self.sc.died(if step_budget { "step-budget" } else { "sim-abort" }, &e) {
                return CaseResult { verdict: Verdict::Violation, violations: vec![(v.sig, v.detail)], body: json!({"died": e}), note: e };
            }
            if step_budget {
                // no scenario needs more than a few ten thousand scheduling steps; a run that is still
                // going after the whole budget never quiesces: some thread of the program spins
                return CaseResult { verdict: Verdict::Violation, violations: vec![("livelock:run".into(), format!("the run exceeded its step budget without quiescing (a library call keeps retrying or a library thread spins): {}", e.lines().next().unwrap_or("")))], body: json!({"died": e}), note: e };
            }
            return CaseResult { verdict: Verdict::HarnessError, violations: vec![], body: Value::Null, note: format!("{} ; {}", e, panics.trim()) };
        }
        match res {
            Some(s) if libc::WIFEXITED(st) && libc::WEXITSTATUS(st) == 0 => {
                let mut body: Value = serde_json::from_str(&s).unwrap_or(Value::Null);
                if body.is_null() {
                    return CaseResult { verdict: Verdict::HarnessError, violations: vec![], body, note: "unparsable result".into() };
                }
                body["tmp_leftovers"] = json!(leftovers);
                let mut violations: Vec<(String, String)> = body["violations"]
                    .as_array()
                    .map(|a| a.iter().map(|v| (v["sig"].as_str().unwrap_or("").to_string(), v["detail"].as_str().unwrap_or("").to_string())).collect())
                    .unwrap_or_default();
                if let Some(v) = self.sc.post(&body) {
                    violations.push((v.sig, v.detail));
                }
                let verdict = if violations.is_empty() { Verdict::Ok } else { Verdict::Violation };
                CaseResult { verdict, violations, body, note: String::new() }
            },
            _ => {
                let how = if libc::WIFSIGNALED(st) { format!("signal {}", libc::WTERMSIG(st)) } else { format!("exit {}", libc::WEXITSTATUS(st)) };
                let mut panics = panics;
                if scen::VARIANT == "asan" {
                    if let Ok(t) = std::fs::read_to_string(format!("/dev/shm/ipcsim-stderr-{}", unsafe { libc::getpid() })) {
                        for l in t.lines().filter(|l| l.contains("ERROR: AddressSanitizer") || l.contains("SUMMARY:") || l.contains("unsafe precondition") || l.contains("panicked at")).take(4) {
                            panics += &format!(" | {}", l.trim());
                        }
                    }
                }
                let note = format!("child died: {} ; panics: {}", how, panics.trim());
                if let Some(v) = self.sc.died(&how, &panics) {
                    return CaseResult { verdict: Verdict::Violation, violations: vec![(v.sig, v.detail)], body: json!({"died": note}), note };
                }
                CaseResult { verdict: Verdict::Died, violations: vec![], body: Value::Null, note }
            },
        }
    }
}

#[derive(Default)]
pub struct Agg {
    pub runs: u64,
    pub ok: u64,
    pub violating: u64,
    pub harness_errors: u64,
    pub steps: u64,
    pub vns: u64,
    pub threads_max: u64,
    pub nontrivial: u64,
    pub sums: BTreeMap<String, u64>,
    pub probes: BTreeMap<String, u64>,
    pub sched_hashes: BTreeSet<u64>,
    pub distinct_nontrivial: BTreeSet<u64>,
    pub samples: Vec<Value>,
    pub violations: Vec<Value>,
    pub errors: Vec<String>,
    pub det_checked: u64,
    pub det_mismatch: u64,
    pub sig_counts: BTreeMap<String, u64>,
    pub hashes: Vec<(u64, String)>,
    pub keep_hashes: bool,
}
impl Agg {
    fn add(&mut self, idx: u64, params: &Value, r: &CaseResult) {
        self.runs += 1;
        match r.verdict {
            Verdict::Ok => self.ok += 1,
            Verdict::Violation => self.violating += 1,
            Verdict::Died | Verdict::HarnessError => {
                self.harness_errors += 1;
                if self.errors.len() < 5 {
                    self.errors.push(format!("case {}: {}", idx, r.note));
                }
            },
        }
        let b = &r.body;
        if self.keep_hashes {
            self.hashes.push((idx, r.trace_hash()));
        }
        self.steps += b["steps"].as_u64().unwrap_or(0);
        self.vns += b["vns"].as_u64().unwrap_or(0);
        self.threads_max = self.threads_max.max(b["threads"].as_u64().unwrap_or(0));
        if let Some(m) = b["stats"].as_object() {
            for (k, v) in m {
                *self.sums.entry(k.clone()).or_insert(0) += v.as_u64().unwrap_or(0);
            }
        }
        if let Some(m) = b["probes"].as_object() {
            for (k, v) in m {
                *self.probes.entry(k.clone()).or_insert(0) += v.as_u64().unwrap_or(0);
            }
        }
        if let Some(h) = b["sched_hash"].as_str() {
            let sh = u64::from_str_radix(h, 16).unwrap_or(0);
            self.sched_hashes.insert(sh);
            if b["nontrivial"].as_bool().unwrap_or(false) {
                self.nontrivial += 1;
                let mut wl = params.clone();
                if let Some(o) = wl.as_object_mut() {
                    o.remove("sim");
                }
                self.distinct_nontrivial.insert(sh ^ fnv(&wl.to_string()).rotate_left(17));
            }
        }
        if self.samples.len() < 2 && r.verdict == Verdict::Ok && b["nontrivial"].as_bool().unwrap_or(false) {
            self.samples.push(json!({"case": idx, "params": clip(params), "observed": b["sample"], "steps": b["steps"], "schedule_deviations": b["deviations"].as_array().map(|a| a.len()).unwrap_or(0)}));
        }
        for (sig, detail) in &r.violations {
            *self.sig_counts.entry(sig.clone()).or_insert(0) += 1;
            // keep the first few cases per signature
            let have = self.violations.iter().filter(|v| v["sig"] == json!(sig)).count();
            if have < 2 {
                self.violations.push(json!({"idx": idx, "sig": sig, "detail": detail, "params": params, "deviations": b["deviations"], "trace_hash": b["trace_hash"]}));
            }
        }
    }
    fn to_json(&self) -> Value {
        json!({
            "runs": self.runs, "ok": self.ok, "violating": self.violating, "harness_errors": self.harness_errors,
            "steps": self.steps, "vns": self.vns, "threads_max": self.threads_max, "nontrivial": self.nontrivial,
            "sums": self.sums, "probes": self.probes,
            "sched_hashes": self.sched_hashes.iter().collect::<Vec<_>>(),
            "distinct_nontrivial": self.distinct_nontrivial.iter().collect::<Vec<_>>(),
            "samples": self.samples, "violations": self.violations, "errors": self.errors,
            "det_checked": self.det_checked, "det_mismatch": self.det_mismatch, "sig_counts": self.sig_counts,
            "hashes": self.hashes.iter().map(|h| json!([h.0, h.1])).collect::<Vec<_>>(),
        })
    }
    fn merge_json(&mut self, v: &Value) {
        self.runs += v["runs"].as_u64().unwrap_or(0);
        self.ok += v["ok"].as_u64().unwrap_or(0);
        self.violating += v["violating"].as_u64().unwrap_or(0);
        self.harness_errors += v["harness_errors"].as_u64().unwrap_or(0);
        self.steps += v["steps"].as_u64().unwrap_or(0);
        self.vns += v["vns"].as_u64().unwrap_or(0);
        self.threads_max = self.threads_max.max(v["threads_max"].as_u64().unwrap_or(0));
        self.nontrivial += v["nontrivial"].as_u64().unwrap_or(0);
        self.det_checked += v["det_checked"].as_u64().unwrap_or(0);
        self.det_mismatch += v["det_mismatch"].as_u64().unwrap_or(0);
        for (name, tgt) in [("sums", &mut self.sums), ("probes", &mut self.probes), ("sig_counts", &mut self.sig_counts)] {
            if let Some(m) = v[name].as_object() {
                for (k, x) in m {
                    *tgt.entry(k.clone()).or_insert(0) += x.as_u64().unwrap_or(0);
                }
            }
        }
        for x in v["sched_hashes"].as_array().into_iter().flatten() {
            self.sched_hashes.insert(x.as_u64().unwrap_or(0));
        }
        for x in v["distinct_nontrivial"].as_array().into_iter().flatten() {
            self.distinct_nontrivial.insert(x.as_u64().unwrap_or(0));
        }
        for x in v["samples"].as_array().into_iter().flatten() {
            if self.samples.len() < 3 {
                self.samples.push(x.clone());
            }
        }
        for x in v["violations"].as_array().into_iter().flatten() {
            self.violations.push(x.clone());
        }
        for x in v["hashes"].as_array().into_iter().flatten() {
            self.hashes.push((x[0].as_u64().unwrap_or(0), x[1].as_str().unwrap_or("").to_string()));
        }
        for x in v["errors"].as_array().into_iter().flatten() {
            if self.errors.len() < 10 {
                self.errors.push(x.as_str().unwrap_or("").to_string());
            }
        }
    }
}
fn clip(v: &Value) -> Value {
    match v {
        Value::Array(a) if a.len() > 24 => {
            let mut x: Vec<Value> = a[..24].iter().map(clip).collect();
            x.push(json!(format!("… {} more", a.len() - 24)));
            Value::Array(x)
        },
        Value::Array(a) => Value::Array(a.iter().map(clip).collect()),
        Value::Object(m) => Value::Object(m.iter().map(|(k, v)| (k.clone(), clip(v))).collect::<Map<_, _>>()),
        _ => v.clone(),
    }
}

pub struct CheckOpts {
    pub tier: Tier,
    pub seed: u64,
    pub workers: usize,
    pub runs: Option<u64>,
    pub known: Vec<String>,
    pub out: Option<String>,
    pub replay_dir: String,
    pub budget_s: Option<u64>,
    pub hashes: Option<String>,
}

/// Run all cases of a scenario for this build's variant. Returns the process exit code.
pub fn check(sc: &'static dyn Scenario, o: &CheckOpts) -> i32 {
    let t0 = Instant::now();
    let variant = scen::VARIANT;
    let total = o.runs.unwrap_or_else(|| sc.count(o.tier, variant));
    println!("ipcsim check property={} variant={} tier={:?} VERIF_SEED={} cases={} workers={}", sc.id(), variant, o.tier, o.seed, total, o.workers);
    let dir = format!("/dev/shm/ipcsim-run-{}", unsafe { libc::getpid() });
    std::fs::create_dir_all(&dir).unwrap();
    let nw = o.workers.max(1).min(total.max(1) as usize);
    let mut pids = vec![];
    for w in 0..nw {
        let pid = unsafe { libc::fork() };
        if pid == 0 {
            let runner = Runner::new(sc);
            let mut agg = Agg::default();
            agg.keep_hashes = o.hashes.is_some();
            let mut idx = w as u64;
            while idx < total {
                if let Some(b) = o.budget_s {
                    if t0.elapsed().as_secs() >= b {
                        break;
                    }
                }
                let params = sc.gen(o.seed, idx, o.tier, variant);
                let r = runner.run_case(&params);
                // determinism re-check on a sample of cases: same case twice => same event-log hash
                if idx % 64 == (w as u64 % 64) && r.verdict != Verdict::HarnessError && r.verdict != Verdict::Died {
                    let r2 = runner.run_case(&params);
                    agg.det_checked += 1;
                    if r2.trace_hash() != r.trace_hash() {
                        agg.det_mismatch += 1;
                        agg.errors.push(format!("case {}: non-deterministic replay ({} vs {})", idx, r.trace_hash(), r2.trace_hash()));
                    }
                }
                agg.add(idx, &params, &r);
                idx += nw as u64;
            }
            std::fs::write(format!("{}/w{}.json", dir, w), agg.to_json().to_string()).unwrap();
            unsafe { libc::_exit(0) }
        }
        pids.push(pid);
    }
    let mut worker_fail = 0;
    for p in pids {
        let mut st = 0;
        unsafe { libc::waitpid(p, &mut st, 0) };
        if !(libc::WIFEXITED(st) && libc::WEXITSTATUS(st) == 0) {
            worker_fail += 1;
        }
    }
    let mut agg = Agg::default();
    for w in 0..nw {
        if let Ok(s) = std::fs::read_to_string(format!("{}/w{}.json", dir, w)) {
            if let Ok(v) = serde_json::from_str::<Value>(&s) {
                agg.merge_json(&v);
            }
        }
    }
    let _ = std::fs::remove_dir_all(&dir);
    if let Some(hp) = &o.hashes {
        agg.hashes.sort();
        let txt: String = agg.hashes.iter().map(|h| format!("{} {}\n", h.0, h.1)).collect();
        std::fs::write(hp, txt).unwrap();
    }
    let explore_s = t0.elapsed().as_secs_f64();

    // ---------------------------------------------------------------- violations
    let runner = Runner::new(sc);
    let mut by_sig: BTreeMap<String, Vec<Value>> = BTreeMap::new();
    for v in &agg.violations {
        by_sig.entry(v["sig"].as_str().unwrap_or("").to_string()).or_default().push(v.clone());
    }
    let mut reported = vec![];
    let mut known_seen = vec![];
    let mut harness_err = agg.harness_errors > 0 || agg.det_mismatch > 0 || worker_fail > 0;
    for (sig, cases) in &by_sig {
        let count = agg.sig_counts.get(sig).copied().unwrap_or(0);
        if o.known.iter().any(|k| sig.starts_with(k.as_str())) {
            known_seen.push(json!({"sig": sig, "count": count, "example": cases[0]["detail"]}));
            continue;
        }
        // lowest case index first; if that one does not reproduce from its own parameters, the
        // other recorded cases of the same signature are tried before giving up
        let mut sorted: Vec<&Value> = cases.iter().collect();
        sorted.sort_by_key(|c| c["idx"].as_u64().unwrap_or(u64::MAX));
        let mut case = sorted[0].clone();
        let mut result = minimise_and_write(&runner, sc, sig, &case, &o.replay_dir, o.seed);
        for c in sorted.iter().skip(1).take(3) {
            if result.is_ok() {
                break;
            }
            case = (*c).clone();
            result = minimise_and_write(&runner, sc, sig, &case, &o.replay_dir, o.seed);
        }
        match result {
            Ok((path, info)) => {
                println!("VIOLATION property={} replay={}", sc.id(), path);
                println!("  signature: {}", sig);
                println!("  detail: {}", info["detail"].as_str().unwrap_or(""));
                reported.push(json!({"sig": sig, "count": count, "replay": path, "detail": info["detail"], "minimised_from": info["from"], "minimised_to": info["to"]}));
            },
            Err(e) => {
                println!("HARNESS-ERROR could not reproduce violation {} of case {}: {}", sig, case["idx"], e);
                harness_err = true;
            },
        }
    }
    let wall = t0.elapsed().as_secs_f64();
    let rep = json!({
        "property": sc.id(), "variant": variant, "tier": format!("{:?}", o.tier).to_lowercase(), "seed": o.seed,
        "cases_planned": total, "runs": agg.runs, "ok": agg.ok, "violating_runs": agg.violating, "harness_errors": agg.harness_errors,
        "errors": agg.errors, "worker_failures": worker_fail,
        "steps": agg.steps, "simulated_ns": agg.vns, "threads_max": agg.threads_max,
        "nontrivial_runs": agg.nontrivial, "distinct_nontrivial": agg.distinct_nontrivial.len(), "distinct_schedules": agg.sched_hashes.len(),
        "faults_and_seam_probes": agg.sums, "scenario_probes": agg.probes,
        "samples": agg.samples, "determinism_rechecks": agg.det_checked, "determinism_mismatches": agg.det_mismatch,
        "violations": reported, "known_seen": known_seen, "explore_s": explore_s, "wall_s": wall,
        "runs_per_hour": if explore_s > 0.0 { (agg.runs as f64 / explore_s * 3600.0) as u64 } else { 0 },
        "rule": sc.rule(), "exhaustive": sc.exhaustive() && o.runs.is_none() && o.budget_s.is_none(),
    });
    if let Some(p) = &o.out {
        std::fs::write(p, serde_json::to_string_pretty(&rep).unwrap()).unwrap();
    }
    println!(
        "done: runs={} ok={} violating={} harness_errors={} distinct_schedules={} det_rechecks={}/{} mismatches wall={:.1}s",
        agg.runs, agg.ok, agg.violating, agg.harness_errors, agg.sched_hashes.len(), agg.det_mismatch, agg.det_checked, wall
    );
    for e in &agg.errors {
        println!("  error: {}", e.lines().next().unwrap_or(""));
    }
    if !reported.is_empty() {
        1
    } else if harness_err {
        2
    } else {
        0
    }
}

// ------------------------------------------------------------------ minimisation
fn with_schedule(params: &Value, devs: &Value) -> Value {
    let mut p = params.clone();
    p["sim"]["schedule"] = devs.clone();
    p
}
fn size_of(v: &Value) -> usize {
    match v {
        Value::Array(a) => 1 + a.iter().map(size_of).sum::<usize>(),
        Value::Object(m) => m.values().map(size_of).sum::<usize>(),
        Value::Number(n) => 1 + (n.as_u64().unwrap_or(0) as f64 + 1.0).log2() as usize / 4,
        _ => 1,
    }
}
/// all JSON-pointer paths of arrays / numbers inside v
fn paths(v: &Value, prefix: &str, arrays: &mut Vec<String>, nums: &mut Vec<String>) {
    match v {
        Value::Array(a) => {
            arrays.push(prefix.to_string());
            for (i, x) in a.iter().enumerate() {
                paths(x, &format!("{}/{}", prefix, i), arrays, nums);
            }
        },
        Value::Object(m) => {
            for (k, x) in m {
                paths(x, &format!("{}/{}", prefix, k), arrays, nums);
            }
        },
        Value::Number(_) => nums.push(prefix.to_string()),
        _ => {},
    }
}
pub fn minimise(runner: &Runner, sig: &str, start: &Value, budget: usize) -> (Value, usize) {
    let mut best = start.clone();
    let mut tries = 0usize;
    let mut test = |cand: &Value, tries: &mut usize| -> bool {
        *tries += 1;
        let r = runner.run_case(cand);
        r.verdict == Verdict::Violation && r.has_sig(sig)
    };
    let mut changed = true;
    while changed && tries < budget {
        changed = false;
        // 1. arrays: remove chunks (ddmin style), the schedule included
        let mut arrays = vec![];
        let mut nums = vec![];
        paths(&best, "", &mut arrays, &mut nums);
        arrays.sort_by_key(|p| std::cmp::Reverse(best.pointer(p).and_then(|a| a.as_array()).map(|a| a.len()).unwrap_or(0)));
        for ap in &arrays {
            if ap.contains("/schedule/") || ap.ends_with("/policy") {
                continue;
            }
            let len = match best.pointer(ap).and_then(|a| a.as_array()) {
                Some(a) => a.len(),
                None => continue,
            };
            if len == 0 {
                continue;
            }
            let mut chunk = len;
            while chunk >= 1 && tries < budget {
                let mut i = 0;
                loop {
                    let cur_len = best.pointer(ap).and_then(|a| a.as_array()).map(|a| a.len()).unwrap_or(0);
                    if i >= cur_len || tries >= budget {
                        break;
                    }
                    let mut cand = best.clone();
                    if let Some(a) = cand.pointer_mut(ap).and_then(|a| a.as_array_mut()) {
                        let end = (i + chunk).min(a.len());
                        a.drain(i..end);
                    }
                    if test(&cand, &mut tries) {
                        best = cand;
                        changed = true;
                    } else {
                        i += chunk;
                    }
                }
                if chunk == 1 {
                    break;
                }
                chunk /= 2;
            }
        }
        // 2. numbers: towards small values
        let mut arrays = vec![];
        let mut nums = vec![];
        paths(&best, "", &mut arrays, &mut nums);
        for np in &nums {
            if np.contains("/schedule/") || np.ends_with("/seed") || np.contains("/sim/faults") {
                continue;
            }
            let cur = match best.pointer(np).and_then(|x| x.as_u64()) {
                Some(c) => c,
                None => continue,
            };
            for cand_v in [0u64, 1, 16, cur / 2, cur.saturating_sub(1)] {
                if cand_v >= cur || tries >= budget {
                    continue;
                }
                let mut cand = best.clone();
                *cand.pointer_mut(np).unwrap() = json!(cand_v);
                if test(&cand, &mut tries) {
                    best = cand;
                    changed = true;
                    break;
                }
            }
        }
    }
    (best, tries)
}

fn minimise_and_write(runner: &Runner, sc: &'static dyn Scenario, sig: &str, case: &Value, dir: &str, seed: u64) -> Result<(String, Value), String> {
    // 1. make the schedule explicit and confirm the violation reproduces from it
    let explicit = with_schedule(&case["params"], &case["deviations"]);
    let r0 = runner.run_case(&explicit);
    let start = if r0.verdict == Verdict::Violation && r0.has_sig(sig) {
        explicit
    } else {
        // fall back to the seed-driven form (still a pure function of the file)
        let r1 = runner.run_case(&case["params"]);
        if !(r1.verdict == Verdict::Violation && r1.has_sig(sig)) {
            return Err(format!("violation did not reproduce from its own parameters ({:?} / {:?})", r0.verdict, r1.verdict));
        }
        case["params"].clone()
    };
    let from = size_of(&start);
    let (min, tries) = minimise(runner, sig, &start, 400);
    // 2. the minimised file must fail the same way twice, with identical event logs (the first of
    // the two runs records the seam log, which is not part of the hash, for the replay file)
    let mut traced = min.clone();
    traced["sim"]["log_seam"] = json!(true);
    let a = runner.run_case(&traced);
    let b = runner.run_case(&min);
    if !(a.has_sig(sig) && b.has_sig(sig)) {
        return Err("minimised case does not reproduce".into());
    }
    if a.trace_hash() != b.trace_hash() {
        return Err(format!("minimised case replays non-deterministically ({} vs {})", a.trace_hash(), b.trace_hash()));
    }
    let detail = a.violations.iter().find(|v| v.0 == sig).map(|v| v.1.clone()).unwrap_or_default();
    std::fs::create_dir_all(dir).ok();
    let path = format!("{}/{}-{}-{:08x}-{}-{}.json", dir, sc.id(), scen::VARIANT, fnv(sig) as u32, seed, case["idx"]);
    let file = json!({
        "property": sc.id(), "variant": scen::VARIANT, "signature": sig, "detail": detail,
        "verif_seed": seed, "case_index": case["idx"], "params": min, "trace_hash": a.trace_hash(),
        "minimisation": {"candidates_tried": tries, "size_before": from, "size_after": size_of(&min)},
        "history_tail": a.body["history_tail"], "seam_tail": a.body["seam_tail"],
        "replay": format!("./run replay {}", path),
    });
    std::fs::write(&path, serde_json::to_string_pretty(&file).unwrap()).map_err(|e| e.to_string())?;
    Ok((path, json!({"detail": detail, "from": from, "to": size_of(&min)})))
}

/// Re-execute a replay file. Exit 1 (+ VIOLATION line) if the violation reproduces, 0 if not.
pub fn replay(path: &str, verbose: bool) -> i32 {
    let s = match std::fs::read_to_string(path) {
        Ok(s) => s,
        Err(e) => {
            println!("cannot read {}: {}", path, e);
            return 2;
        },
    };
    let f: Value = serde_json::from_str(&s).unwrap_or(Value::Null);
    let id = f["property"].as_str().unwrap_or("");
    let sc = match scen::lookup(id) {
        Some(s) => s,
        None => {
            println!("unknown property {}", id);
            return 2;
        },
    };
    if f["variant"].as_str().unwrap_or("") != scen::VARIANT {
        println!("replay file is for variant {} (this binary: {})", f["variant"], scen::VARIANT);
        return 2;
    }
    let mut params = f["params"].clone();
    if verbose {
        params["sim"]["log_seam"] = json!(true);
    }
    let runner = Runner::new(sc);
    let r = runner.run_case(&params);
    let sig = f["signature"].as_str().unwrap_or("");
    println!("replay {}: verdict={:?} trace_hash={} (recorded {})", path, r.verdict, r.trace_hash(), f["trace_hash"].as_str().unwrap_or("?"));
    for v in &r.violations {
        println!("  {} :: {}", v.0, v.1);
    }
    if verbose {
        for l in r.body["seam_tail"].as_array().into_iter().flatten() {
            println!("    seam  {}", l.as_str().unwrap_or(""));
        }
        for l in r.body["history_tail"].as_array().into_iter().flatten() {
            println!("    api   {}", l.as_str().unwrap_or(""));
        }
        for l in r.body["panics"].as_array().into_iter().flatten() {
            println!("    panic {}", l.as_str().unwrap_or(""));
        }
    }
    if !r.note.is_empty() {
        println!("  note: {}", r.note);
    }
    if r.verdict == Verdict::Violation && (sig.is_empty() || r.has_sig(sig)) {
        println!("VIOLATION property={} replay={}", id, path);
        1
    } else if r.verdict == Verdict::HarnessError || r.verdict == Verdict::Died {
        2
    } else {
        0
    }
}
