//! API-level history: invoke/return events of public calls, stamped with one global
//! sequence number (never simulated time, under which events tie).
//! Only the baton holder touches it; logging draws no randomness and reads no clock
//! (the virtual time is copied from the simulator's counter).
#![allow(static_mut_refs)]
use crate::sim;

#[derive(Clone, Debug)]
pub struct Ev {
    pub seq: u64,
    pub tid: u16,
    pub vns: u64,
    pub op: &'static str,
    pub a: i64,
    pub b: i64,
    pub c: i64,
    pub s: String,
}

#[derive(Clone, Debug)]
pub struct PanicRec {
    pub label: String,
    pub loc: String,
    pub msg: String,
}

pub struct Hist {
    pub evs: Vec<Ev>,
    pub panics: Vec<PanicRec>,
    pub seq: u64,
}
static mut HIST: Hist = Hist { evs: Vec::new(), panics: Vec::new(), seq: 0 };

pub fn h() -> &'static mut Hist {
    unsafe { &mut HIST }
}
pub fn log(op: &'static str, a: i64, b: i64, c: i64, s: &str) -> u64 {
    let hh = h();
    hh.seq += 1;
    let seq = hh.seq;
    let (tid, vns) = if sim::is_active() { (sim::me() as u16, sim::now_ns()) } else { (0, 0) };
    hh.evs.push(Ev { seq, tid, vns, op, a, b, c, s: s.to_string() });
    let mut x = 0u64;
    for ch in op.bytes() {
        x = x.wrapping_mul(31).wrapping_add(ch as u64);
    }
    sim::app_trace(x as i64 ^ a, b ^ (c << 20));
    seq
}
pub fn events() -> &'static [Ev] {
    &h().evs
}
pub fn panics() -> &'static [PanicRec] {
    &h().panics
}
pub fn render(e: &Ev) -> String {
    format!("#{} t{} @{}us {} a={} b={} c={} {}", e.seq, e.tid, e.vns / 1000, e.op, e.a, e.b, e.c, e.s)
}
pub fn tail(n: usize) -> Vec<String> {
    let ev = events();
    ev[ev.len().saturating_sub(n)..].iter().map(render).collect()
}

pub fn install_panic_hook() {
    std::panic::set_hook(Box::new(|info| {
        let loc = info.location().map(|l| format!("{}:{}", l.file(), l.line())).unwrap_or_default();
        let msg = if let Some(s) = info.payload().downcast_ref::<&str>() {
            s.to_string()
        } else if let Some(s) = info.payload().downcast_ref::<String>() {
            s.clone()
        } else {
            "<non-string panic>".to_string()
        };
        let label = if sim::is_active() { sim::g().slots[sim::me()].label.clone() } else { "?".into() };
        crate::report::panic_note(&format!("PANIC [{}] {} :: {}", label, loc, msg));
        if sim::is_active() {
            h().panics.push(PanicRec { label, loc, msg });
        }
    }));
}
/// a panic raised by the library or its dependencies (anything but the harness's own source files)
pub fn library_panic(p: &PanicRec) -> bool {
    !p.loc.contains("/harness/src/") && !p.loc.starts_with("src/")
}
/// file (without line) + first words of the message: stable across unrelated edits
pub fn panic_sig(p: &PanicRec) -> String {
    let file = p.loc.rsplit_once(':').map(|x| x.0).unwrap_or(&p.loc);
    let parts: Vec<&str> = file.rsplit('/').take(2).collect();
    let file = if parts.len() == 2 && parts[0] == "mod.rs" { format!("{}/{}", parts[1], parts[0]) } else { parts[0].to_string() };
    let m: String = p.msg.chars().filter(|c| !c.is_ascii_digit()).take(40).collect();
    format!("panic:{}:{}", file, m.trim())
}
