//! ipcsim harness: deterministic simulation with fault injection for ipc-channel.
mod driver;
mod hist;
mod report;
mod rng;
mod scen;
mod selftest;
mod sim;

use scen::Tier;

fn arg_val(args: &[String], name: &str) -> Option<String> {
    args.iter().position(|a| a == name).and_then(|i| args.get(i + 1).cloned())
}

fn main() {
    let args: Vec<String> = std::env::args().collect();
    let cmd = args.get(1).map(|s| s.as_str()).unwrap_or("help");
    let code = match cmd {
        "list" => {
            for s in scen::registry() {
                println!("{} {}", s.id(), s.variants().join(","));
            }
            0
        },
        "variant" => {
            println!("{}", scen::VARIANT);
            0
        },
        "check" => {
            let id = args.get(2).cloned().unwrap_or_default();
            let sc = match scen::lookup(&id) {
                Some(s) => s,
                None => {
                    eprintln!("unknown property {}", id);
                    std::process::exit(2);
                },
            };
            let tier = match arg_val(&args, "--tier").as_deref() {
                Some("thorough") => Tier::Thorough,
                _ => Tier::Quick,
            };
            let seed = arg_val(&args, "--seed").and_then(|s| s.parse().ok()).unwrap_or(20261003);
            let o = driver::CheckOpts {
                tier,
                seed,
                workers: arg_val(&args, "--workers").and_then(|s| s.parse().ok()).unwrap_or(16),
                runs: arg_val(&args, "--runs").and_then(|s| s.parse().ok()),
                known: arg_val(&args, "--known").map(|s| s.split(',').filter(|x| !x.is_empty()).map(|x| x.to_string()).collect()).unwrap_or_default(),
                out: arg_val(&args, "--out"),
                replay_dir: arg_val(&args, "--replay-dir").unwrap_or_else(|| "/verif/replays".into()),
                budget_s: arg_val(&args, "--budget-s").and_then(|s| s.parse().ok()),
                hashes: arg_val(&args, "--hashes"),
            };
            driver::check(sc, &o)
        },
        "case" => {
            // run one generated case by index and print its result (debugging aid)
            let id = args.get(2).cloned().unwrap_or_default();
            let idx: u64 = args.get(3).and_then(|s| s.parse().ok()).unwrap_or(0);
            let sc = scen::lookup(&id).expect("unknown property");
            let tier = match arg_val(&args, "--tier").as_deref() {
                Some("thorough") => Tier::Thorough,
                _ => Tier::Quick,
            };
            let seed = arg_val(&args, "--seed").and_then(|s| s.parse().ok()).unwrap_or(20261003);
            let mut params = sc.gen(seed, idx, tier, scen::VARIANT);
            if args.iter().any(|a| a == "--trace") {
                params["sim"]["log_seam"] = serde_json::json!(true);
            }
            let runner = driver::Runner::new(sc);
            let r = runner.run_case(&params);
            println!("params: {}", params);
            println!("verdict: {:?} note: {}", r.verdict, r.note);
            for v in &r.violations {
                println!("  {} :: {}", v.0, v.1);
            }
            println!("trace_hash {} steps {} stats {}", r.trace_hash(), r.body["steps"], r.body["stats"]);
            if args.iter().any(|a| a == "--trace") {
                for l in r.body["seam_tail"].as_array().into_iter().flatten() {
                    println!("    seam  {}", l.as_str().unwrap_or(""));
                }
                for l in r.body["history_tail"].as_array().into_iter().flatten() {
                    println!("    api   {}", l.as_str().unwrap_or(""));
                }
            }
            0
        },
        "replay" => {
            let path = args.get(2).cloned().unwrap_or_default();
            driver::replay(&path, args.iter().any(|a| a == "--trace"))
        },
        "selftest" => selftest::run(&args[2..]),
        _ => {
            eprintln!("usage: harness list | check <ID> --tier quick|thorough [--seed N] [--out F] | replay <file> [--trace] | selftest [premise|determinism]");
            2
        },
    };
    std::process::exit(code);
}
