//! Result channel between a sacrificial child (one simulated run) and its worker:
//! a MAP_SHARED region created before fork, so it survives any death of the child.
#![allow(static_mut_refs)]
use std::sync::atomic::{AtomicU64, Ordering::SeqCst};

pub const REGION: usize = 16 << 20;
const OFF_LEN: usize = 0; // result length (0 = none)
const OFF_ERR: usize = 8; // harness error text length
const OFF_PANIC: usize = 16; // panic notes length
const ERR_AT: usize = 64;
const ERR_MAX: usize = 64 << 10;
const PANIC_AT: usize = ERR_AT + ERR_MAX;
const PANIC_MAX: usize = 64 << 10;
const RES_AT: usize = PANIC_AT + PANIC_MAX;

static mut BASE: *mut u8 = std::ptr::null_mut();

pub fn create() -> *mut u8 {
    unsafe {
        let p = libc::mmap(
            std::ptr::null_mut(),
            REGION,
            libc::PROT_READ | libc::PROT_WRITE,
            libc::MAP_SHARED | libc::MAP_ANONYMOUS,
            -1,
            0,
        );
        assert!(p != libc::MAP_FAILED);
        BASE = p as *mut u8;
        BASE
    }
}
fn word(off: usize) -> &'static AtomicU64 {
    unsafe { &*(BASE.add(off) as *const AtomicU64) }
}
pub fn reset() {
    word(OFF_LEN).store(0, SeqCst);
    word(OFF_ERR).store(0, SeqCst);
    word(OFF_PANIC).store(0, SeqCst);
}
pub fn write_result(s: &str) {
    unsafe {
        if BASE.is_null() {
            return;
        }
        let n = s.len().min(REGION - RES_AT);
        std::ptr::copy_nonoverlapping(s.as_ptr(), BASE.add(RES_AT), n);
        word(OFF_LEN).store(n as u64, SeqCst);
    }
}
pub fn harness_error(s: &str) {
    unsafe {
        if BASE.is_null() {
            return;
        }
        let n = s.len().min(ERR_MAX);
        std::ptr::copy_nonoverlapping(s.as_ptr(), BASE.add(ERR_AT), n);
        word(OFF_ERR).store(n as u64, SeqCst);
    }
}
/// Append a panic note (called from the panic hook; lock-free append).
pub fn panic_note(s: &str) {
    unsafe {
        if BASE.is_null() {
            return;
        }
        let line = format!("{}\n", s.replace('\n', " | "));
        let at = word(OFF_PANIC).fetch_add(line.len() as u64, SeqCst) as usize;
        if at + line.len() <= PANIC_MAX {
            std::ptr::copy_nonoverlapping(line.as_ptr(), BASE.add(PANIC_AT + at), line.len());
        }
    }
}
fn read(off_len: usize, at: usize, max: usize) -> Option<String> {
    unsafe {
        let n = (word(off_len).load(SeqCst) as usize).min(max);
        if n == 0 {
            return None;
        }
        let sl = std::slice::from_raw_parts(BASE.add(at), n);
        Some(String::from_utf8_lossy(sl).to_string())
    }
}
pub fn read_result() -> Option<String> {
    read(OFF_LEN, RES_AT, REGION - RES_AT)
}
pub fn read_error() -> Option<String> {
    read(OFF_ERR, ERR_AT, ERR_MAX)
}
pub fn read_panics() -> Option<String> {
    read(OFF_PANIC, PANIC_AT, PANIC_MAX)
}
