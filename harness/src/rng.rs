//! splitmix64 — the only PRNG in the harness. Every stream is derived from VERIF_SEED.
#[derive(Clone, Copy, Debug)]
pub struct Rng(pub u64);

impl Rng {
    pub fn new(seed: u64) -> Rng {
        Rng(seed)
    }
    /// Independent stream `k` of `seed`.
    pub fn stream(seed: u64, k: u64) -> Rng {
        let mut r = Rng(seed ^ k.wrapping_mul(0xA24BAED4963EE407));
        r.next();
        r.next();
        r
    }
    pub fn next(&mut self) -> u64 {
        self.0 = self.0.wrapping_add(0x9E3779B97F4A7C15);
        let mut z = self.0;
        z = (z ^ (z >> 30)).wrapping_mul(0xBF58476D1CE4E5B9);
        z = (z ^ (z >> 27)).wrapping_mul(0x94D049BB133111EB);
        z ^ (z >> 31)
    }
    /// uniform in 0..n (n > 0)
    pub fn below(&mut self, n: u64) -> u64 {
        if n == 0 {
            return 0;
        }
        self.next() % n
    }
    /// uniform in lo..=hi
    pub fn range(&mut self, lo: u64, hi: u64) -> u64 {
        lo + self.below(hi - lo + 1)
    }
    pub fn chance(&mut self, num: u64, den: u64) -> bool {
        self.below(den) < num
    }
    pub fn pick<'a, T>(&mut self, v: &'a [T]) -> &'a T {
        &v[self.below(v.len() as u64) as usize]
    }
    pub fn fill(&mut self, buf: &mut [u8]) {
        let mut i = 0;
        while i < buf.len() {
            let x = self.next().to_le_bytes();
            let n = (buf.len() - i).min(8);
            buf[i..i + n].copy_from_slice(&x[..n]);
            i += n;
        }
    }
}
