//! C01 — values and byte payloads arrive exactly as sent, at every size.
use super::util::{predict_frag, spawn_process};
use super::*;
use crate::hist;
use ipc_channel::ipc::{self, IpcBytesReceiver, IpcBytesSender, IpcError, IpcReceiver, IpcReceiverSet, IpcSelectionResult, IpcSender, TryRecvError};
use serde::{Deserialize, Serialize};
use std::collections::BTreeMap;
use std::time::Duration;

pub struct C01S;
pub static C01: C01S = C01S;

#[derive(Serialize, Deserialize, Clone, Debug)]
pub enum Val {
    Unit,
    Bool(bool),
    I8(i8),
    I16(i16),
    I32(i32),
    I64(i64),
    U8(u8),
    U16(u16),
    U32(u32),
    U64(u64),
    U128(u128),
    F32(f32),
    F64(f64),
    Char(char),
    Str(String),
    Bytes(Vec<u8>),
    Opt(Option<Box<Val>>),
    Seq(Vec<Val>),
    Map(BTreeMap<String, Val>),
    Tuple(Box<(Val, Val, Val)>),
    Struct { a: Box<Val>, b: u16, c: Vec<u32> },
    Newtype(Box<Val>),
}
fn gen_val(r: &mut Rng, depth: u32, pad: &mut usize) -> Val {
    let leaf = depth >= 4 || r.chance(2, 5);
    if leaf {
        return match r.below(17) {
            0 => Val::Unit,
            1 => Val::Bool(r.chance(1, 2)),
            2 => Val::I8(r.next() as i8),
            3 => Val::I16(r.next() as i16),
            4 => Val::I32(r.next() as i32),
            5 => Val::I64(r.next() as i64),
            6 => Val::U8(r.next() as u8),
            7 => Val::U16(r.next() as u16),
            8 => Val::U32(r.next() as u32),
            9 => Val::U64(r.next()),
            10 => Val::U128((r.next() as u128) << 64 | r.next() as u128),
            // arbitrary bit patterns, including NaNs with payloads, infinities, subnormals, -0
            11 => {
                let x = r.next() as u32;
                Val::F32(f32::from_bits(*r.pick(&[0u32, 0x8000_0000, 0x7fc0_0001, 0xffc1_2345, 0x7f80_0000, 1, x])))
            },
            12 => {
                let x = r.next();
                Val::F64(f64::from_bits(*r.pick(&[0u64, 1 << 63, 0x7ff8_0000_0000_0001, 0xfff0_0000_0000_0000, 3, x])))
            },
            13 => Val::Char(char::from_u32(*r.pick(&[0u32, 0x41, 0x7ff, 0x800, 0xd7ff, 0xe000, 0xffff, 0x10000, 0x10ffff])).unwrap_or('x')),
            14 => Val::Str((0..r.below(20)).map(|_| char::from_u32(*r.pick(&[0x61u32, 0x20, 0xe9, 0x4e2d, 0x1f600, 0])).unwrap()).collect()),
            _ => {
                let n = if *pad > 0 {
                    let n = *pad;
                    *pad = 0;
                    n
                } else {
                    r.below(40) as usize
                };
                let mut v = vec![0u8; n];
                r.fill(&mut v);
                Val::Bytes(v)
            },
        };
    }
    match r.below(6) {
        0 => Val::Opt(if r.chance(3, 4) { Some(Box::new(gen_val(r, depth + 1, pad))) } else { None }),
        1 => Val::Seq((0..r.below(6)).map(|_| gen_val(r, depth + 1, pad)).collect()),
        2 => {
            let mut m = BTreeMap::new();
            for i in 0..r.below(5) {
                m.insert(format!("k{}{}", i, r.below(100)), gen_val(r, depth + 1, pad));
            }
            Val::Map(m)
        },
        3 => Val::Tuple(Box::new((gen_val(r, depth + 1, pad), gen_val(r, depth + 1, pad), gen_val(r, depth + 1, pad)))),
        4 => Val::Struct { a: Box::new(gen_val(r, depth + 1, pad)), b: r.next() as u16, c: (0..r.below(5)).map(|_| r.next() as u32).collect() },
        _ => Val::Newtype(Box::new(gen_val(r, depth + 1, pad))),
    }
}
fn fnv(b: &[u8]) -> u64 {
    let mut h = 0xcbf29ce484222325u64;
    for x in b {
        h ^= *x as u64;
        h = h.wrapping_mul(0x100000001b3);
    }
    h
}
/// the messages of a case, rebuilt identically on the sending and the judging side
fn build(p: &Value) -> Vec<(Option<Val>, Vec<u8>)> {
    let mut out = vec![];
    for m in p["msgs"].as_array().cloned().unwrap_or_default().iter().take(6) {
        let mut r = Rng::new(m["seed"].as_u64().unwrap_or(1));
        if m["kind"].as_str() == Some("value") {
            let mut pad = m["pad"].as_u64().unwrap_or(0).min(8 << 20) as usize;
            let v = Val::Seq(vec![gen_val(&mut r, 0, &mut pad), gen_val(&mut r, 1, &mut pad)]);
            let bytes = bincode::serialize(&v).unwrap();
            out.push((Some(v), bytes));
        } else {
            let n = m["len"].as_u64().unwrap_or(0).min(64 << 20) as usize;
            let mut v = vec![0u8; n];
            r.fill(&mut v);
            out.push((None, v));
        }
    }
    out
}
#[derive(Serialize, Deserialize)]
pub enum Tx1 {
    Val(IpcSender<Val>),
    Vec(IpcSender<Vec<u8>>),
    Bytes(IpcBytesSender),
}
enum Rx1 {
    Val(IpcReceiver<Val>),
    Vec(IpcReceiver<Vec<u8>>),
    Bytes(IpcBytesReceiver),
}
const BUFS: [Option<u64>; 6] = [Some(2304), Some(2306), Some(4096), Some(8192), Some(32768), None];
const NBOUNDARY: u64 = 6 * 4 * 33 * 2;

impl Scenario for C01S {
    fn id(&self) -> &'static str {
        "C01"
    }
    fn variants(&self) -> &'static [&'static str] {
        &["os", "memfd", "inproc"]
    }
    fn count(&self, tier: Tier, variant: &str) -> u64 {
        match (tier, variant) {
            (Tier::Quick, "os") => NBOUNDARY + 40_000,
            (Tier::Quick, _) => 10_000,
            (Tier::Thorough, "os") => NBOUNDARY + 2_500_000,
            (Tier::Thorough, _) => 500_000,
        }
    }
    fn rule(&self) -> &'static str {
        "case i < 1584 (OS build): complete enumeration of (6 effective send-buffer sizes from the 4608-byte minimum to the system default, one of them not 8-aligned) x (k = 1..4 packet-capacity boundaries) x (every length within +-16 of the boundary) x (bytes channel | typed Vec<u8>); further cases: 1..6 messages per run, each a seeded recursive serde value (all integer widths, floats by bit pattern incl. NaN payloads, chars, strings, bytes, options, sequences, maps, tuples, structs, enums, optionally padded to multi-packet size) or a byte payload of random / boundary / large length (<= 4 MiB quick, <= 64 MiB thorough; the in-process transport has no packet boundaries: fixed, random and large lengths there), under a seeded SO_SNDBUF, receiver mode (recv, try_recv, try_recv_timeout, receiver set), sender as thread or sim-process and seeded schedule; non-trivial = at least one multi-packet message or nested value; distinct = distinct (case, schedule hash)"
    }
    fn gen(&self, seed: u64, idx: u64, tier: Tier, variant: &str) -> Value {
        let mut r = Rng::stream(seed, idx.wrapping_mul(2654435761).wrapping_add(0xC01));
        let inproc = variant == "inproc";
        let mut sim = sim_json(&mut r, seed ^ idx.wrapping_mul(0x9E37));
        if idx < NBOUNDARY && variant == "os" {
            let delta = (idx % 33) as i64 - 16;
            let j = (idx / 33) % 4;
            let b = BUFS[((idx / 132) % 6) as usize];
            let typed = (idx / 792) % 2 == 1;
            sim["sndbuf"] = b.map(|x| json!(x)).unwrap_or(Value::Null);
            sim["policy"] = json!({"kind": "sticky", "pct": 80});
            let (first, follow) = predict_frag(b, false);
            // serialised size of the message = len (+8 for the typed Vec<u8> length prefix)
            let target = (first + j as usize * follow) as i64 + delta - if typed { 8 } else { 0 };
            let len = target.max(0) as u64;
            return json!({"sim": sim, "chan": if typed { "vec" } else { "bytes" }, "mode": "recv", "sender_proc": false,
                          "msgs": [{"kind": "bytes", "len": len, "seed": idx + 1}], "boundary": [j, delta]});
        }
        let (first, follow) = predict_frag(sim["sndbuf"].as_u64(), inproc);
        let chan = *r.pick(&["val", "val", "vec", "bytes"]);
        let n = r.range(1, 6);
        let max_big: u64 = if tier == Tier::Thorough { 64 << 20 } else { 4 << 20 };
        let mut msgs = vec![];
        for _ in 0..n {
            if chan == "val" {
                let pad = if r.chance(1, 3) && first != usize::MAX { first as u64 / 2 + r.below(3 * follow as u64) } else { 0 };
                msgs.push(json!({"kind": "value", "seed": r.next() >> 8, "pad": pad}));
            } else {
                let len = if first == usize::MAX {
                    // in-process transport: no packets, hence no boundaries; fixed and random lengths
                    match r.below(8) {
                        0..=4 => *r.pick(&[0u64, 1, 100, 70000, 1 << 20]),
                        5..=6 => r.range(0, 300_000),
                        _ if r.chance(1, if tier == Tier::Thorough { 10 } else { 30 }) => r.range(1 << 20, max_big),
                        _ => r.range(0, 2000),
                    }
                } else {
                    match r.below(12) {
                        0 => 0,
                        1 => 1,
                        2..=5 => ((first + r.below(4) as usize * follow) as i64 + r.below(33) as i64 - 16).max(0) as u64,
                        6..=8 => r.range(0, 4 * follow as u64),
                        9 => r.range(0, 300_000),
                        10 if r.chance(1, if tier == Tier::Thorough { 20 } else { 60 }) => r.range(1 << 20, max_big),
                        _ => r.range(0, 2000),
                    }
                };
                msgs.push(json!({"kind": "bytes", "len": len, "seed": r.next() >> 8}));
            }
        }
        let modes: &[&str] = if chan == "bytes" { &["recv", "try"] } else { &["recv", "recv", "try", "timeout", "set"] };
        if !inproc && r.chance(1, 4) {
            // transient buffer exhaustion changes how the payload is split: the bytes must not change
            let f: Vec<Value> = (0..r.range(1, 3)).map(|_| json!({"k": "txerr", "pid": 2, "nth": r.below(12), "errno": libc::ENOBUFS})).collect();
            sim["faults"] = json!(f);
        }
        // (the bootstrap of a sim-process sends too: keep the refusals for the thread sender)
        let faulty = sim["faults"].as_array().map(|a| !a.is_empty()).unwrap_or(false);
        json!({"sim": sim, "chan": chan, "mode": *r.pick(modes), "sender_proc": !inproc && !faulty && r.chance(1, 4), "msgs": msgs})
    }
    fn run(&self, p: &Value) -> Outcome {
        let mut out = Outcome::default();
        start_sim(p);
        let msgs = build(p);
        let n = msgs.len();
        let chan = p["chan"].as_str().unwrap_or("val").to_string();
        let mode = p["mode"].as_str().unwrap_or("recv").to_string();
        let (tx, rx) = match chan.as_str() {
            "val" => {
                let (t, r) = ipc::channel::<Val>().unwrap();
                (Tx1::Val(t), Rx1::Val(r))
            },
            "vec" => {
                let (t, r) = ipc::channel::<Vec<u8>>().unwrap();
                (Tx1::Vec(t), Rx1::Vec(r))
            },
            _ => {
                let (t, r) = ipc::bytes_channel().unwrap();
                (Tx1::Bytes(t), Rx1::Bytes(r))
            },
        };
        let (first, _) = frag_sizes();
        let send_all = move |tx: Tx1, msgs: Vec<(Option<Val>, Vec<u8>)>| {
            for (i, (v, bytes)) in msgs.into_iter().enumerate() {
                hist::log("send.inv", i as i64, bytes.len() as i64, 0, "");
                let r = match (&tx, v) {
                    (Tx1::Val(t), Some(v)) => t.send(v).map_err(|e| e.to_string()),
                    (Tx1::Vec(t), _) => t.send(bytes).map_err(|e| e.to_string()),
                    (Tx1::Bytes(t), _) => t.send(&bytes).map_err(|e| e.to_string()),
                    _ => Err("bad case".into()),
                };
                match r {
                    Ok(()) => hist::log("send.ok", i as i64, 0, 0, ""),
                    Err(e) => hist::log("send.err", i as i64, 0, 0, &e),
                };
            }
        };
        let msgs_s = msgs.clone();
        if p["sender_proc"].as_bool().unwrap_or(false) && !cfg!(feature = "inproc") {
            spawn_process("sender", 2, tx, move |tx: Tx1| send_all(tx, msgs_s));
        } else {
            sim::spawn("sender", Some(2), move || send_all(tx, msgs_s));
        }
        let chan_r = chan.clone();
        sim::spawn("receiver", None, move || {
            let chan = chan_r;
            let note = |i: usize, b: Vec<u8>| {
                hist::log("deliver", i as i64, b.len() as i64, fnv(&b) as i64, "");
            };
            let mut i = 0usize;
            let mut empties = 0;
            let mut set: Option<(IpcReceiverSet, u64)> = None;
            let rx = if mode == "set" {
                let mut s = IpcReceiverSet::new().unwrap();
                match rx {
                    Rx1::Val(r) => {
                        let id = s.add(r).unwrap();
                        set = Some((s, id));
                    },
                    Rx1::Vec(r) => {
                        let id = s.add(r).unwrap();
                        set = Some((s, id));
                    },
                    Rx1::Bytes(_) => {},
                }
                None
            } else {
                Some(rx)
            };
            loop {
                if i >= n + 1 {
                    break;
                }
                if let Some((s, _id)) = set.as_mut() {
                    let rs = match s.select() {
                        Ok(x) => x,
                        Err(e) => {
                            hist::log("recv.err", 0, 0, 0, &e.to_string());
                            break;
                        },
                    };
                    let mut closed = false;
                    for ev in rs {
                        match ev {
                            IpcSelectionResult::MessageReceived(_, m) => {
                                let b = if chan == "val" { m.to::<Val>().map(|v| bincode::serialize(&v).unwrap()) } else { m.to::<Vec<u8>>() };
                                match b {
                                    Ok(b) => note(i, b),
                                    Err(e) => {
                                        hist::log("recv.err", i as i64, 0, 0, &e.to_string());
                                    },
                                }
                                i += 1;
                            },
                            IpcSelectionResult::ChannelClosed(_) => closed = true,
                        }
                    }
                    if closed {
                        break;
                    }
                    continue;
                }
                let r: Result<Vec<u8>, TryRecvError> = match (rx.as_ref().unwrap(), mode.as_str()) {
                    (Rx1::Val(r), "recv") => r.recv().map(|v| bincode::serialize(&v).unwrap()).map_err(TryRecvError::IpcError),
                    (Rx1::Val(r), "timeout") => r.try_recv_timeout(Duration::from_millis(2)).map(|v| bincode::serialize(&v).unwrap()),
                    (Rx1::Val(r), _) => r.try_recv().map(|v| bincode::serialize(&v).unwrap()),
                    (Rx1::Vec(r), "recv") => r.recv().map_err(TryRecvError::IpcError),
                    (Rx1::Vec(r), "timeout") => r.try_recv_timeout(Duration::from_millis(2)),
                    (Rx1::Vec(r), _) => r.try_recv(),
                    (Rx1::Bytes(r), "recv") => r.recv().map_err(TryRecvError::IpcError),
                    (Rx1::Bytes(r), _) => r.try_recv(),
                };
                match r {
                    Ok(b) => {
                        empties = 0;
                        note(i, b);
                        i += 1;
                    },
                    Err(TryRecvError::Empty) => {
                        empties += 1;
                        if empties > 300 {
                            hist::log("recv.err", i as i64, 0, 0, "gave up");
                            break;
                        }
                        if mode != "timeout" {
                            sim::sleep_ns(200_000);
                        }
                    },
                    Err(TryRecvError::IpcError(IpcError::Disconnected)) => break,
                    Err(e) => {
                        hist::log("recv.err", i as i64, 0, 0, &format!("{:?}", e));
                        i += 1;
                    },
                }
            }
            hist::log("receiver.done", 0, 0, 0, "");
        });
        let blocked = sim::settle();
        let evs = hist::events();
        let delivered: Vec<&hist::Ev> = evs.iter().filter(|e| e.op == "deliver").collect();
        let mut multi = false;
        let faulty = sim::g().stats.f_enobufs > 0;
        let mut k = 0usize; // index among the successfully sent messages
        for (i, (_v, bytes)) in msgs.iter().enumerate() {
            let over = if chan == "vec" { 8 } else { 0 };
            if bytes.len() + over > first {
                multi = true;
            }
            let ok = evs.iter().any(|e| e.op == "send.ok" && e.a == i as i64);
            if let Some(e) = evs.iter().find(|e| e.op == "send.err" && e.a == i as i64) {
                // with injected ENOBUFS a send may legitimately report an error (C13's subject)
                if !faulty {
                    out.viol("send-refused:send", format!("message {} ({} bytes) was refused: {}", i, bytes.len(), e.s));
                }
                continue;
            }
            if !ok {
                continue;
            }
            k += 1;
            match delivered.get(k - 1) {
                None => {
                    if !blocked.iter().any(|b| b.label == "sender") {
                        out.viol("lost:recv", format!("message {} ({} bytes) was sent but not received", i, bytes.len()));
                    }
                },
                Some(d) => {
                    if d.b as usize != bytes.len() {
                        out.viol("length:recv", format!("message {}: sent {} bytes{}, received {} bytes (first fragment capacity {})", i, bytes.len(), if chan == "val" { " (bincode of the value)" } else { "" }, d.b, first));
                    } else if d.c != fnv(bytes) as i64 {
                        out.viol("content:recv", format!("message {} ({} bytes): the received {} differs from what was sent", i, bytes.len(), if chan == "val" { "value (re-serialised)" } else { "payload" }));
                    }
                },
            }
        }
        for e in evs.iter().filter(|e| e.op == "recv.err") {
            out.viol("recv-failed:recv", format!("message {}: {}", e.a, e.s));
        }
        for b in &blocked {
            if b.label == "sender" || b.label == "receiver" {
                out.viol(&format!("hang:{}", if b.label == "sender" { "send" } else { "recv" }), format!("{} blocked forever in {}", b.label, b.in_call));
            }
        }
        if !evs.iter().any(|e| e.op == "receiver.done") && !blocked.iter().any(|b| b.label == "receiver") {
            out.viol("receiver-died:recv", "the receiver died (panic in the receive path)".into());
        }
        let st = &sim::g().stats;
        if st.p_trunc > 0 || st.p_ctrunc > 0 {
            out.viol("truncated-at-seam:recv", format!("a packet did not fit the buffer the receiver offered (MSG_TRUNC {} / MSG_CTRUNC {})", st.p_trunc, st.p_ctrunc));
        }
        for pn in hist::panics() {
            out.viol(&hist::panic_sig(pn), format!("panic in [{}]: {} at {}", pn.label, pn.msg, pn.loc));
        }
        out.nontrivial = multi || chan == "val";
        out.probe("messages", n as u64);
        out.probe("multi_packet_cases", multi as u64);
        out.probe("boundary_cases", p["boundary"].is_array() as u64);
        out.probe("bytes_sent", msgs.iter().map(|m| m.1.len() as u64).sum());
        out.probe("messages_over_1MiB", msgs.iter().filter(|m| m.1.len() > (1 << 20)).count() as u64);
        out.sample = json!({"chan": chan, "mode": p["mode"], "sizes": msgs.iter().map(|m| m.1.len()).collect::<Vec<_>>(), "first_fragment": first, "boundary": p["boundary"]});
        out
    }
}
