//! C02 — messages are delivered exactly once, whole, and in the order they were sent.
use super::util::{predict_frag, spawn_process};
use super::*;
use crate::hist;
use ipc_channel::ipc::{self, IpcBytesReceiver, IpcBytesSender, IpcError, IpcReceiver, IpcReceiverSet, IpcSelectionResult, IpcSender, TryRecvError};
use ipc_channel::router::RouterProxy;
use serde::{Deserialize, Serialize};
use std::time::Duration;

pub struct C02S;
pub static C02: C02S = C02S;

#[derive(Serialize, Deserialize)]
pub enum Tx {
    Typed(IpcSender<Vec<u8>>),
    Bytes(IpcBytesSender),
}
impl Tx {
    pub fn send(&self, v: Vec<u8>) -> Result<(), String> {
        match self {
            Tx::Typed(t) => t.send(v).map_err(|e| e.to_string()),
            Tx::Bytes(t) => t.send(&v).map_err(|e| e.to_string()),
        }
    }
    pub fn dup(&self) -> Tx {
        match self {
            Tx::Typed(t) => Tx::Typed(t.clone()),
            Tx::Bytes(t) => Tx::Bytes(t.clone()),
        }
    }
}
pub enum Rx {
    Typed(IpcReceiver<Vec<u8>>),
    Bytes(IpcBytesReceiver),
}

/// Outcome of one receive attempt, normalised.
pub enum Got {
    Msg(Vec<u8>),
    Empty,
    Closed,
    Err(String),
}
pub fn norm_try(r: Result<Vec<u8>, TryRecvError>) -> Got {
    match r {
        Ok(v) => Got::Msg(v),
        Err(TryRecvError::Empty) => Got::Empty,
        Err(TryRecvError::IpcError(IpcError::Disconnected)) => Got::Closed,
        Err(e) => Got::Err(format!("{:?}", e)),
    }
}
pub fn norm(r: Result<Vec<u8>, IpcError>) -> Got {
    match r {
        Ok(v) => Got::Msg(v),
        Err(IpcError::Disconnected) => Got::Closed,
        Err(e) => Got::Err(format!("{:?}", e)),
    }
}

fn log_delivery(v: &[u8]) {
    match check_payload(v) {
        Ok((c, s, q)) => {
            // decoy channels (c > 1) are folded into the sender id space: 100*c + s
            hist::log("deliver", if c == 1 { s as i64 } else { 100 * c as i64 + s as i64 }, q as i64, v.len() as i64, "");
        },
        Err(e) => {
            hist::log("deliver.bad", v.len() as i64, 0, 0, &e);
        },
    }
}

/// Receive until disconnected (or give up), logging deliveries.
fn receiver_loop(rx: Rx, mode: &str, delay_ns: u64) {
    // a late receiver: everything sent meanwhile piles up in the socket buffer
    if delay_ns > 0 {
        sim::sleep_ns(delay_ns);
    }
    let mut empties = 0u32;
    loop {
        let got = match (&rx, mode) {
            (Rx::Typed(r), "recv") => norm(r.recv()),
            (Rx::Bytes(r), "recv") => norm(r.recv()),
            (Rx::Typed(r), "timeout") => norm_try(r.try_recv_timeout(Duration::from_millis(3))),
            (Rx::Typed(r), _) => norm_try(r.try_recv()),
            (Rx::Bytes(r), _) => norm_try(r.try_recv()),
        };
        match got {
            Got::Msg(v) => {
                empties = 0;
                log_delivery(&v);
            },
            Got::Empty => {
                empties += 1;
                if empties > 300 {
                    hist::log("recv.gaveup", 0, 0, 0, "");
                    return;
                }
                if mode != "timeout" {
                    sim::sleep_ns(200_000);
                }
            },
            Got::Closed => {
                hist::log("recv.closed", 0, 0, 0, "");
                return;
            },
            Got::Err(e) => {
                hist::log("recv.err", 0, 0, 0, &e);
                return;
            },
        }
    }
}
fn set_loop(rx: IpcReceiver<Vec<u8>>, decoys: Vec<IpcReceiver<Vec<u8>>>, delay: u64) {
    if delay > 0 {
        sim::sleep_ns(delay);
    }
    let mut set = IpcReceiverSet::new().unwrap();
    let id = set.add(rx).unwrap();
    let mut open = 1 + decoys.len();
    for d in decoys {
        set.add(d).unwrap();
    }
    loop {
        let rs = match set.select() {
            Ok(r) => r,
            Err(e) => {
                hist::log("recv.err", 0, 0, 0, &format!("select: {}", e));
                return;
            },
        };
        for r in rs {
            match r {
                IpcSelectionResult::MessageReceived(i, m) => {
                    match m.to::<Vec<u8>>() {
                        Ok(v) => {
                            // channel 1 = the channel under test, >1 = other members of the set
                            let on_main = check_payload(&v).map(|t| t.0 == 1).unwrap_or(true);
                            if on_main != (i == id) {
                                hist::log("deliver.bad", 0, 0, 0, "reported under the id of another member");
                            }
                            log_delivery(&v)
                        },
                        Err(e) => {
                            hist::log("deliver.bad", 0, 0, 0, &format!("decode: {}", e));
                        },
                    }
                },
                IpcSelectionResult::ChannelClosed(i) => {
                    if i == id {
                        hist::log("recv.closed", 0, 0, 0, "");
                    }
                    open -= 1;
                },
            }
        }
        if open == 0 {
            return;
        }
    }
}

fn sender_body(tx: Tx, sender: u32, msgs: Vec<u64>) {
    sender_body_on(tx, 1, sender, msgs)
}
fn sender_body_on(tx: Tx, chan: u32, sender: u32, msgs: Vec<u64>) {
    let sid = if chan == 1 { sender } else { 100 * chan + sender };
    let sender = sid;
    for (q, len) in msgs.iter().enumerate() {
        let p = make_payload(chan, if chan == 1 { sender } else { 0 }, q as u32, *len as usize);
        hist::log("send.inv", sender as i64, q as i64, p.len() as i64, "");
        let r = tx.send(p);
        match r {
            Ok(()) => hist::log("send.ok", sender as i64, q as i64, 0, ""),
            Err(e) => hist::log("send.err", sender as i64, q as i64, 0, &e),
        };
    }
    drop(tx);
    hist::log("sender.done", sender as i64, 0, 0, "");
}

impl Scenario for C02S {
    fn id(&self) -> &'static str {
        "C02"
    }
    fn variants(&self) -> &'static [&'static str] {
        &["os", "memfd", "inproc", "hook"]
    }
    fn count(&self, tier: Tier, variant: &str) -> u64 {
        match (tier, variant) {
            (Tier::Quick, "os") => 30_000,
            (Tier::Quick, _) => 8000,
            (Tier::Thorough, "os") => 1_200_000,
            (Tier::Thorough, _) => 300_000,
        }
    }
    fn rule(&self) -> &'static str {
        "case = (1..8 senders as threads or sim-processes, per-sender 1..12 tagged messages of single/multi-packet sizes around the fragment boundaries of the run's SO_SNDBUF, receiver mode recv/try_recv/try_recv_timeout/receiver-set/router, scheduling policy) drawn from VERIF_SEED; non-trivial = >=2 senders or >=1 multi-packet message; distinct = distinct schedule hash (sequence of scheduler picks)"
    }
    fn gen(&self, seed: u64, idx: u64, _tier: Tier, variant: &str) -> Value {
        let mut r = Rng::stream(seed, idx.wrapping_mul(2654435761).wrapping_add(0xC02));
        let mut sim = sim_json(&mut r, seed ^ idx.wrapping_mul(0x9E37));
        let inproc = variant == "inproc";
        if r.chance(2, 3) && !inproc {
            // small buffers make multi-packet messages cheap
            sim["sndbuf"] = json!(*r.pick(&[2304u64, 2304, 3000, 4096]));
        }
        let (first, _) = predict_frag(sim["sndbuf"].as_u64(), inproc);
        let nsend = match r.below(10) {
            0..=1 => 1,
            2..=5 => r.range(2, 3),
            _ => r.range(3, 8),
        };
        let bytes = r.chance(1, 4);
        // burst cases: many small messages pile up in front of a late receiver (default buffer)
        let burst = r.chance(1, 6);
        if burst {
            sim["sndbuf"] = Value::Null;
        }
        let mut senders = vec![];
        for _ in 0..nsend {
            let n = if burst { r.range(10, 45) } else { r.range(1, if nsend > 4 { 5 } else { 12 }) };
            let msgs: Vec<u64> = (0..n).map(|_| if burst { r.range(16, 90) } else { size_classes(&mut r, first) as u64 }).collect();
            senders.push(json!({"proc": !inproc && r.chance(1, 3), "msgs": msgs}));
        }
        let modes: &[&str] = if bytes { &["recv", "try"] } else { &["recv", "recv", "try", "timeout", "set", "set", "router"] };
        let decoys: Vec<u64> = (0..r.below(4)).map(|_| r.range(1, 40)).collect();
        // transient buffer exhaustion re-splits messages in flight (thread senders only: a
        // sim-process's bootstrap transmits too); a send that then reports an error is fine here
        if !inproc && r.chance(1, 5) {
            let f: Vec<Value> = (0..r.range(1, 3)).map(|_| json!({"k": "txerr", "pid": 2 + r.below(nsend), "nth": r.below(10), "errno": libc::ENOBUFS})).collect();
            sim["faults"] = json!(f);
            for s in senders.iter_mut() {
                s["proc"] = json!(false);
            }
        }
        json!({"sim": sim, "bytes": bytes, "mode": *r.pick(modes), "senders": senders, "first": first as u64,
               "start_delay_us": if burst { *r.pick(&[500u64, 5000]) } else { *r.pick(&[0u64, 0, 0, 300]) }, "decoys": decoys})
    }
    fn run(&self, p: &Value) -> Outcome {
        let mut out = Outcome::default();
        start_sim(p);
        let bytes = p["bytes"].as_bool().unwrap_or(false);
        let mode = p["mode"].as_str().unwrap_or("recv").to_string();
        let (first, _) = frag_sizes();
        let (tx, rx) = if bytes {
            let (t, r) = ipc::bytes_channel().unwrap();
            (Tx::Bytes(t), Rx::Bytes(r))
        } else {
            let (t, r) = ipc::channel::<Vec<u8>>().unwrap();
            (Tx::Typed(t), Rx::Typed(r))
        };
        // receiver
        let mut _keep_router = None;
        match (mode.as_str(), rx) {
            ("set", Rx::Typed(r)) => {
                let mut drx = vec![];
                for (k, n) in p["decoys"].as_array().cloned().unwrap_or_default().iter().enumerate().take(4) {
                    let (dt, dr) = ipc::channel::<Vec<u8>>().unwrap();
                    drx.push(dr);
                    let n = n.as_u64().unwrap_or(1).min(60);
                    sim::spawn(&format!("decoy{}", k), None, move || sender_body_on(Tx::Typed(dt), 2 + k as u32, 0, (0..n).map(|_| 32).collect()));
                }
                let delay = p["start_delay_us"].as_u64().unwrap_or(0).min(1_000_000) * 1000;
                sim::spawn("receiver", None, move || set_loop(r, drx, delay));
            },
            ("router", Rx::Typed(r)) => {
                let router = RouterProxy::new();
                // (the route exists from the start; a late route is C07's subject)
                router.add_route(
                    r.to_opaque(),
                    Box::new(|m| match m.to::<Vec<u8>>() {
                        Ok(v) => log_delivery(&v),
                        Err(e) => {
                            hist::log("deliver.bad", 0, 0, 0, &format!("decode: {}", e));
                        },
                    }),
                );
                _keep_router = Some(router);
            },
            (m, rx) => {
                let m = m.to_string();
                let delay = p["start_delay_us"].as_u64().unwrap_or(0).min(1_000_000) * 1000;
                sim::spawn("receiver", None, move || receiver_loop(rx, &m, delay));
            },
        }
        // senders
        let senders = p["senders"].as_array().cloned().unwrap_or_default();
        let mut multi = false;
        let mut total_msgs = 0;
        for (i, s) in senders.iter().enumerate().take(8) {
            let msgs: Vec<u64> = s["msgs"].as_array().map(|a| a.iter().filter_map(|x| x.as_u64()).map(|x| x.min(4 << 20)).collect()).unwrap_or_default();
            let msgs: Vec<u64> = msgs.into_iter().take(48).collect();
            total_msgs += msgs.len();
            if msgs.iter().any(|&l| (l as usize).max(16) + if bytes { 0 } else { 8 } > first) {
                multi = true;
            }
            let sid = i as u32;
            if s["proc"].as_bool().unwrap_or(false) && !cfg!(feature = "inproc") {
                spawn_process(&format!("sender{}", i), (i + 1) as u32, tx.dup(), move |t: Tx| sender_body(t, sid, msgs));
            } else {
                let t = tx.dup();
                // own sim-process id: transmission attempts (for injected refusals) are counted per sender
                sim::spawn(&format!("sender{}", i), Some(2 + i as u32), move || sender_body(t, sid, msgs));
            }
        }
        drop(tx);
        hist::log("main.dropped", 0, 0, 0, "");
        let blocked = sim::settle();

        // ---------------------------------------------------------------- oracle
        let evs = hist::events();
        let mut sends: Vec<(i64, i64, u64, Option<u64>, bool)> = vec![]; // sender, seq, inv, ret, ok
        let mut deliveries: Vec<(i64, i64, u64)> = vec![];
        let mut closed = false;
        for e in evs {
            match e.op {
                "send.inv" => sends.push((e.a, e.b, e.seq, None, false)),
                "send.ok" | "send.err" => {
                    if let Some(s) = sends.iter_mut().find(|s| s.0 == e.a && s.1 == e.b) {
                        s.3 = Some(e.seq);
                        s.4 = e.op == "send.ok";
                    }
                    if e.op == "send.err" {
                        out.probe("send_err", 1);
                    }
                },
                "deliver" => deliveries.push((e.a, e.b, e.seq)),
                "deliver.bad" => out.viol("torn-or-mixed:recv", format!("a received payload is not one whole sent message: {}", e.s)),
                "recv.closed" => closed = true,
                "recv.err" => out.viol("recv-error:recv", format!("receive failed: {}", e.s)),
                "recv.gaveup" => out.probe("gaveup", 1),
                _ => {},
            }
        }
        // exactly once
        for (i, d) in deliveries.iter().enumerate() {
            if deliveries[..i].iter().any(|x| x.0 == d.0 && x.1 == d.1) {
                out.viol("duplicate:recv", format!("message sender={} seq={} delivered twice", d.0, d.1));
            }
            if !sends.iter().any(|s| s.0 == d.0 && s.1 == d.1) {
                out.viol("phantom:recv", format!("delivered message sender={} seq={} was never sent", d.0, d.1));
            }
        }
        for s in &sends {
            if s.4 && !deliveries.iter().any(|d| d.0 == s.0 && d.1 == s.1) {
                out.viol("lost:send-ok", format!("send of sender={} seq={} returned Ok but the message was never delivered (receiver closed={})", s.0, s.1, closed));
            }
        }
        // order: ret(a) < inv(b)  =>  a delivered before b
        for (i, db) in deliveries.iter().enumerate() {
            let sb = sends.iter().find(|s| s.0 == db.0 && s.1 == db.1);
            for da in &deliveries[i + 1..] {
                let sa = sends.iter().find(|s| s.0 == da.0 && s.1 == da.1);
                if let (Some(sa), Some(sb)) = (sa, sb) {
                    // order is defined per channel (ids >= 100 are the other members of the set)
                    let ch = |s: i64| if s < 100 { 1 } else { s / 100 };
                    if ch(sa.0) != ch(sb.0) {
                        continue;
                    }
                    if let Some(ra) = sa.3 {
                        if sa.4 && ra < sb.2 {
                            out.viol(
                                "order:recv",
                                format!("send(sender={},seq={}) returned (#{}) before send(sender={},seq={}) began (#{}) but was delivered after it", sa.0, sa.1, ra, sb.0, sb.1, sb.2),
                            );
                        }
                    }
                }
            }
        }
        // blocked senders at quiescence: the receiver is alive, so a send must not hang
        for b in &blocked {
            if b.label.starts_with("sender") || b.label.starts_with("decoy") {
                out.viol("hang:send", format!("{} blocked forever in {} ({}) although its receiver is alive", b.label, b.in_call, b.cond));
            }
        }
        // a panic inside the library (sender, receiver or routing thread) is never an acceptable way
        // of losing a message; the harness's own threads do not panic on the unchanged tree
        for pn in hist::panics() {
            out.viol(&hist::panic_sig(pn), format!("panic in [{}]: {} at {}", pn.label, pn.msg, pn.loc));
        }
        out.nontrivial = senders.len() >= 2 || multi;
        out.probe("multi_packet_case", multi as u64);
        out.probe("deliveries", deliveries.len() as u64);
        out.probe("proc_senders", senders.iter().filter(|s| s["proc"].as_bool().unwrap_or(false)).count() as u64);
        out.sample = json!({"mode": mode, "bytes": bytes, "senders": senders.len(), "messages": total_msgs, "first_fragment": first, "delivered": deliveries.len()});
        out
    }
}
