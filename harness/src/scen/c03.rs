//! C03 — disconnection is reported exactly when no sender can exist any more.
//!
//! A seeded history over an acyclic family of channels (channel i may carry sender handles of
//! channels j > i) is executed by actor threads / sim-processes; observers loop on the three
//! receive variants. The oracle tracks every handle *lineage* (original, clone, in flight inside
//! an undelivered message, extracted) as an interval between invoke and return events and judges
//! each observer result with certain facts only.
use super::util::spawn_process;
use super::*;
use crate::hist;
use ipc_channel::ipc::{self, IpcError, IpcReceiver, IpcSender, TryRecvError};
use serde::{Deserialize, Serialize};
use std::sync::atomic::{AtomicU32, Ordering::SeqCst};
use std::time::Duration;

pub struct C03S;
pub static C03: C03S = C03S;

#[derive(Serialize, Deserialize)]
pub enum Msg {
    Data { mid: u32, pad: Vec<u8> },
    Carry { mid: u32, hid: u32, chan: u32, tx: IpcSender<Msg> },
}
#[derive(Serialize, Deserialize)]
pub struct H {
    pub hid: u32,
    pub chan: u32,
    pub tx: IpcSender<Msg>,
}
#[derive(Serialize, Deserialize)]
pub struct Bag {
    pub hs: Vec<H>,
    pub rxs: Vec<(u32, IpcReceiver<Msg>)>,
}
static NEXT_HID: AtomicU32 = AtomicU32::new(1);
static NEXT_MID: AtomicU32 = AtomicU32::new(1);
static GATE: std::sync::Mutex<bool> = std::sync::Mutex::new(false);
static GATE_CV: std::sync::Condvar = std::sync::Condvar::new();
/// Actors and observers start only after main has handed out every handle: a bag given to a
/// sim-process also exists in main until the bootstrap send returns, which the lineage model
/// does not describe.
fn wait_gate() {
    let mut g = GATE.lock().unwrap();
    while !*g {
        g = GATE_CV.wait(g).unwrap();
    }
}
fn open_gate() {
    *GATE.lock().unwrap() = true;
    GATE_CV.notify_all();
}

fn run_script(bag: Bag, script: Vec<Value>, hold: bool, depth: u32) {
    run_script_c(bag, script, hold, depth, None)
}
/// `crash_after`: the actor's whole sim-process dies after that many operations (process actors only)
fn run_script_c(mut bag: Bag, script: Vec<Value>, hold: bool, depth: u32, crash_after: Option<u64>) {
    wait_gate();
    // which sim-process holds which handle matters once processes can die
    let pid = sim::my_pid();
    hist::log("actor.start", pid as i64, 0, 0, "");
    for h in &bag.hs {
        hist::log("adopt", h.hid as i64, h.chan as i64, pid as i64, "");
    }
    for r in &bag.rxs {
        hist::log("adoptrx", r.0 as i64, pid as i64, 0, "");
    }
    let mut done_ops = 0u64;
    for op in script {
        if crash_after == Some(done_ops) {
            sim::crash_now();
        }
        done_ops += 1;
        let name = op[0].as_str().unwrap_or("");
        let k = op[1].as_u64().unwrap_or(0) as usize;
        match name {
            "clone" if !bag.hs.is_empty() => {
                let i = k % bag.hs.len();
                let (phid, chan) = (bag.hs[i].hid, bag.hs[i].chan);
                hist::log("clone.inv", phid as i64, chan as i64, 0, "");
                let tx = bag.hs[i].tx.clone();
                let hid = NEXT_HID.fetch_add(1, SeqCst);
                hist::log("clone.ret", phid as i64, chan as i64, hid as i64, "");
                bag.hs.push(H { hid, chan, tx });
            },
            "drop" if !bag.hs.is_empty() => {
                let i = k % bag.hs.len();
                let h = bag.hs.remove(i);
                hist::log("drop.inv", h.hid as i64, h.chan as i64, 0, "");
                drop(h.tx);
                hist::log("drop.ret", h.hid as i64, h.chan as i64, 0, "");
            },
            "send" if !bag.hs.is_empty() => {
                let i = k % bag.hs.len();
                let mid = NEXT_MID.fetch_add(1, SeqCst);
                let pad = op[2].as_u64().unwrap_or(0).min(1 << 20) as usize;
                hist::log("send.inv", mid as i64, bag.hs[i].chan as i64, bag.hs[i].hid as i64, "");
                let r = bag.hs[i].tx.send(Msg::Data { mid, pad: vec![0x5a; pad] });
                hist::log(if r.is_ok() { "send.ok" } else { "send.err" }, mid as i64, bag.hs[i].chan as i64, 0, "");
            },
            "embed" if bag.hs.len() >= 2 => {
                // move handle i through handle j, only "downwards" (chan(j) < chan(i)): acyclic
                let i = k % bag.hs.len();
                let cands: Vec<usize> = (0..bag.hs.len()).filter(|&j| bag.hs[j].chan < bag.hs[i].chan).collect();
                if cands.is_empty() {
                    continue;
                }
                let j = cands[op[2].as_u64().unwrap_or(0) as usize % cands.len()];
                let via_chan = bag.hs[j].chan;
                let via = bag.hs[j].tx.clone(); // temporary, logged as a clone+drop of the carrier handle
                let vhid = NEXT_HID.fetch_add(1, SeqCst);
                hist::log("clone.inv", bag.hs[j].hid as i64, via_chan as i64, 0, "");
                hist::log("clone.ret", bag.hs[j].hid as i64, via_chan as i64, vhid as i64, "");
                let h = bag.hs.remove(i);
                let mid = NEXT_MID.fetch_add(1, SeqCst);
                hist::log("embed.inv", mid as i64, via_chan as i64, h.hid as i64, "");
                let r = via.send(Msg::Carry { mid, hid: h.hid, chan: h.chan, tx: h.tx });
                hist::log(if r.is_ok() { "embed.ok" } else { "embed.err" }, mid as i64, via_chan as i64, h.hid as i64, "");
                hist::log("drop.inv", vhid as i64, via_chan as i64, 0, "");
                drop(via);
                hist::log("drop.ret", vhid as i64, via_chan as i64, 0, "");
            },
            "extract" if !bag.rxs.is_empty() => {
                let i = k % bag.rxs.len();
                let chan = bag.rxs[i].0;
                hist::log("extract.inv", chan as i64, 0, 0, "");
                match bag.rxs[i].1.try_recv() {
                    Ok(Msg::Carry { mid, hid, chan: c2, tx }) => {
                        hist::log("extract.got", mid as i64, chan as i64, hid as i64, "");
                        bag.hs.push(H { hid, chan: c2, tx });
                    },
                    Ok(Msg::Data { mid, .. }) => {
                        hist::log("extract.data", mid as i64, chan as i64, 0, "");
                    },
                    Err(TryRecvError::Empty) => {
                        hist::log("extract.empty", chan as i64, 0, 0, "");
                    },
                    Err(TryRecvError::IpcError(IpcError::Disconnected)) => {
                        hist::log("extract.closed", chan as i64, 0, 0, "");
                    },
                    Err(e) => {
                        hist::log("extract.err", chan as i64, 0, 0, &format!("{:?}", e));
                    },
                }
            },
            "droprx" if !bag.rxs.is_empty() => {
                let i = k % bag.rxs.len();
                let (chan, rx) = bag.rxs.remove(i);
                hist::log("droprx.inv", chan as i64, 0, 0, "");
                drop(rx);
                hist::log("droprx.ret", chan as i64, 0, 0, "");
            },
            "fork" if !bag.hs.is_empty() && depth < 2 => {
                let i = k % bag.hs.len();
                let h = bag.hs.remove(i);
                let sub: Vec<Value> = op[2].as_array().cloned().unwrap_or_default();
                let b2 = Bag { hs: vec![h], rxs: vec![] };
                sim::spawn("actor-fork", None, move || run_script(b2, sub, false, depth + 1));
            },
            "sleep" => sim::sleep_ns(op[1].as_u64().unwrap_or(1).min(10_000_000) * 1000),
            "yield" => sim::yield_now(),
            _ => {},
        }
        sim::yield_now();
    }
    if hold {
        for h in &bag.hs {
            hist::log("hold", h.hid as i64, h.chan as i64, 0, "");
        }
        for r in &bag.rxs {
            hist::log("holdrx", r.0 as i64, 0, 0, "");
        }
        std::mem::forget(bag);
        return;
    }
    while let Some(h) = bag.hs.pop() {
        hist::log("drop.inv", h.hid as i64, h.chan as i64, 0, "");
        drop(h.tx);
        hist::log("drop.ret", h.hid as i64, h.chan as i64, 0, "");
    }
    while let Some((chan, rx)) = bag.rxs.pop() {
        hist::log("droprx.inv", chan as i64, 0, 0, "");
        drop(rx);
        hist::log("droprx.ret", chan as i64, 0, 0, "");
    }
}

fn observer(chan: u32, rx: IpcReceiver<Msg>, mode: String, timeout_us: u64) {
    wait_gate();
    let mut empties = 0;
    loop {
        hist::log("obs.inv", chan as i64, 0, 0, &mode);
        let r: Result<Msg, TryRecvError> = match mode.as_str() {
            "recv" => rx.recv().map_err(TryRecvError::IpcError),
            "timeout" => rx.try_recv_timeout(Duration::from_micros(timeout_us)),
            _ => rx.try_recv(),
        };
        match r {
            Ok(Msg::Data { mid, .. }) => {
                empties = 0;
                hist::log("obs.data", chan as i64, mid as i64, 0, "");
            },
            Ok(Msg::Carry { mid, hid, chan: c2, tx }) => {
                empties = 0;
                hist::log("obs.data", chan as i64, mid as i64, hid as i64, "carry");
                hist::log("extract.got", mid as i64, chan as i64, hid as i64, "");
                hist::log("drop.inv", hid as i64, c2 as i64, 0, "");
                drop(tx);
                hist::log("drop.ret", hid as i64, c2 as i64, 0, "");
            },
            Err(TryRecvError::Empty) => {
                hist::log("obs.empty", chan as i64, 0, 0, "");
                empties += 1;
                if empties > 40 {
                    hist::log("obs.quit", chan as i64, 0, 0, "");
                    // keep the receiver alive (its queue may hold handles): park it
                    std::mem::forget(rx);
                    return;
                }
                if mode != "timeout" {
                    sim::sleep_ns(150_000);
                }
            },
            Err(TryRecvError::IpcError(IpcError::Disconnected)) => {
                hist::log("obs.closed", chan as i64, 0, 0, "");
                hist::log("droprx.inv", chan as i64, 0, 0, "");
                drop(rx);
                hist::log("droprx.ret", chan as i64, 0, 0, "");
                return;
            },
            Err(e) => {
                hist::log("obs.err", chan as i64, 0, 0, &format!("{:?}", e));
                std::mem::forget(rx);
                return;
            },
        }
    }
}

fn gen_script(r: &mut Rng, len: u64, depth: u32) -> Vec<Value> {
    let mut v = vec![];
    for _ in 0..len {
        let k = r.below(64);
        v.push(match r.below(100) {
            0..=17 => json!(["clone", k]),
            18..=39 => json!(["drop", k]),
            40..=57 => json!(["send", k, if r.chance(1, 6) { r.range(3000, 12000) } else { r.below(40) }]),
            58..=72 => json!(["embed", k, r.below(8)]),
            73..=82 => json!(["extract", k]),
            83..=87 => json!(["droprx", k]),
            88..=91 if depth == 0 => {
                let n = r.range(1, 4);
                json!(["fork", k, gen_script(r, n, depth + 1)])
            },
            92..=95 => json!(["sleep", r.range(1, 3000)]),
            _ => json!(["yield", 0]),
        });
    }
    v
}

#[derive(Clone, Debug, PartialEq)]
enum LState {
    Held,
    InFlight(i64, i64), // (carrier chan, mid)
    Dead(u64, u64),     // death interval (inv, ret)
    Forever,
    /// a dead process was sending it when it died: it is either queued somewhere or gone
    Unknown,
}

impl Scenario for C03S {
    fn id(&self) -> &'static str {
        "C03"
    }
    fn variants(&self) -> &'static [&'static str] {
        &["os", "memfd", "inproc", "hook"]
    }
    fn count(&self, tier: Tier, variant: &str) -> u64 {
        match (tier, variant) {
            (Tier::Quick, "os") => 50_000,
            (Tier::Quick, "hook") => 30_000,
            (Tier::Thorough, "hook") => 1_000_000,
            (Tier::Quick, _) => 12_000,
            (Tier::Thorough, "os") => 2_000_000,
            (Tier::Thorough, _) => 500_000,
        }
    }
    fn rule(&self) -> &'static str {
        "case = seeded history (clone / drop / send / embed-in-message / extract / drop-carrying-receiver / fork-to-thread / hold) over 2..5 channels executed by 1..4 actors (threads or sim-processes, which may die after k operations taking their handles and carrier receivers with them), observers per channel using recv / try_recv / try_recv_timeout, and a scheduling policy; non-trivial = at least one handle travelled inside a message or was cloned, and at least one observer verdict (closed/empty/blocked) was judged; distinct = distinct (workload, schedule hash)"
    }
    fn gen(&self, seed: u64, idx: u64, _tier: Tier, variant: &str) -> Value {
        let mut r = Rng::stream(seed, idx.wrapping_mul(2654435761).wrapping_add(0xC03));
        let mut sim = sim_json(&mut r, seed ^ idx.wrapping_mul(0x9E37));
        if r.chance(1, 2) {
            sim["sndbuf"] = json!(2304);
        }
        if variant != "inproc" {
            sim["faults"] = json!(gen_env_faults(&mut r, 200));
        }
        let nchan = r.range(2, 5);
        let nact = r.range(1, 4);
        let mut actors = vec![];
        for _ in 0..nact {
            let slen = r.range(2, 14);
            let is_proc = variant != "inproc" && r.chance(1, 3);
            actors.push(json!({
                "proc": is_proc,
                // the actor's process dies (all its handles and receivers with it) after k operations
                "crash_after": if is_proc && r.chance(1, 3) { json!(r.below(slen + 1)) } else { Value::Null },
                "hold": r.chance(1, 8),
                "script": gen_script(&mut r, slen, 0),
            }));
        }
        // channel roles: the last channel is always observed; others are observed or owned by an actor
        let mut chans = vec![];
        for c in 0..nchan {
            let observed = c == nchan - 1 || r.chance(1, 3);
            chans.push(json!({
                "observer": if observed { json!(*r.pick(&["recv", "recv", "try", "timeout"])) } else { Value::Null },
                "timeout_us": *r.pick(&[0u64, 300, 1000, 5000, 50_000]),
                "rx_owner": r.below(nact),
                // which actors get an initial sender handle
                "tx_owners": (0..r.range(1, 3)).map(|_| r.below(nact)).collect::<Vec<_>>(),
            }));
        }
        json!({"sim": sim, "chans": chans, "actors": actors})
    }
    fn run(&self, p: &Value) -> Outcome {
        let mut out = Outcome::default();
        start_sim(p);
        let chans = p["chans"].as_array().cloned().unwrap_or_default();
        let mut actors = p["actors"].as_array().cloned().unwrap_or_default();
        if actors.is_empty() {
            actors.push(json!({"script": []}));
        }
        let nact = actors.len().max(1);
        let mut bags: Vec<Bag> = (0..nact).map(|_| Bag { hs: vec![], rxs: vec![] }).collect();
        let mut observed: Vec<u32> = vec![];
        for (c, ch) in chans.iter().enumerate().take(6) {
            let c = c as u32;
            let (tx, rx) = ipc::channel::<Msg>().unwrap();
            let owners: Vec<u64> = ch["tx_owners"].as_array().map(|a| a.iter().filter_map(|x| x.as_u64()).collect()).unwrap_or_default();
            let owners = if owners.is_empty() { vec![0] } else { owners };
            for (n, o) in owners.iter().enumerate() {
                let hid = NEXT_HID.fetch_add(1, SeqCst);
                let t = if n + 1 == owners.len() { None } else { Some(tx.clone()) };
                hist::log("create", hid as i64, c as i64, 0, "");
                match t {
                    Some(t) => bags[*o as usize % nact].hs.push(H { hid, chan: c, tx: t }),
                    None => {},
                }
                if n + 1 == owners.len() {
                    // the original goes to the last owner (moved below)
                    bags[*o as usize % nact].hs.push(H { hid, chan: c, tx: tx.clone() });
                }
            }
            drop(tx);
            if let Some(mode) = ch["observer"].as_str() {
                let mode = mode.to_string();
                let to = ch["timeout_us"].as_u64().unwrap_or(1000);
                observed.push(c);
                sim::spawn(&format!("observer{}", c), None, move || observer(c, rx, mode, to));
            } else {
                bags[ch["rx_owner"].as_u64().unwrap_or(0) as usize % nact].rxs.push((c, rx));
            }
        }
        for (i, (a, bag)) in actors.iter().zip(bags.into_iter()).enumerate() {
            let script: Vec<Value> = a["script"].as_array().cloned().unwrap_or_default();
            let hold = a["hold"].as_bool().unwrap_or(false);
            if a["proc"].as_bool().unwrap_or(false) && !cfg!(feature = "inproc") {
                let crash_after = a["crash_after"].as_u64();
                spawn_process(&format!("actor{}", i), (i + 1) as u32, bag, move |b: Bag| run_script_c(b, script, hold, 0, crash_after));
            } else {
                sim::spawn(&format!("actor{}", i), None, move || run_script(bag, script, hold, 0));
            }
        }
        open_gate();
        let blocked = sim::settle();

        // ------------------------------------------------------------ oracle
        let evs = hist::events();
        let nch = chans.len().min(6);
        // lineage states
        let mut lin: std::collections::BTreeMap<i64, (i64, LState)> = Default::default(); // hid -> (chan, state)
        let mut droprx: std::collections::BTreeMap<i64, (u64, u64)> = Default::default(); // chan -> (inv, ret)
        let mut pending_inv: std::collections::BTreeMap<(u16, &'static str), u64> = Default::default();
        // the channel whose liveness an unfinished operation leaves open (None = cannot tell: any)
        let mut pending_chan: std::collections::BTreeMap<(u16, &'static str), Option<i64>> = Default::default();
        let mut travelled = 0u64;
        let mut embed_done: std::collections::BTreeSet<i64> = Default::default();
        let mut late: std::collections::BTreeSet<i64> = Default::default();
        let mut possible_until: std::collections::BTreeMap<i64, u64> = Default::default();
        let mut clones = 0u64;
        // owner (sim-process) of every held handle / carrier receiver, and which thread is in which process
        let mut tid_pid: std::collections::BTreeMap<u16, i64> = Default::default();
        let mut owner: std::collections::BTreeMap<i64, i64> = Default::default(); // hid -> pid
        let mut rx_owner: std::collections::BTreeMap<i64, i64> = Default::default(); // chan -> pid
        let mut crash_at: std::collections::BTreeMap<i64, u64> = Default::default(); // pid -> crash seq
        for e in evs {
            match e.op {
                "actor.start" => {
                    tid_pid.insert(e.tid, e.a);
                },
                "adopt" => {
                    owner.insert(e.a, e.c);
                },
                "adoptrx" => {
                    rx_owner.insert(e.a, e.b);
                },
                "crash" => {
                    crash_at.insert(e.a, e.seq);
                },
                "crash.reaped" => {
                    // everything the dead process held is gone: possibly from the crash on, certainly now
                    let pid = e.a;
                    let c = crash_at.get(&pid).copied().unwrap_or(e.seq);
                    for (h, l) in lin.iter_mut() {
                        if owner.get(h) == Some(&pid) && l.1 == LState::Held {
                            l.1 = LState::Dead(c, e.seq);
                        }
                    }
                    // a send that the dead process had in progress is over now, whatever it did
                    let dead_tids: Vec<u16> = tid_pid.iter().filter(|(_, p)| **p == pid).map(|(t, _)| *t).collect();
                    let stale: Vec<(u16, &'static str)> = pending_inv.keys().filter(|k| dead_tids.contains(&k.0)).cloned().collect();
                    for k in stale {
                        pending_inv.remove(&k);
                    }
                    for (h, pu) in possible_until.iter_mut() {
                        if *pu == u64::MAX && owner.get(h) == Some(&pid) {
                            *pu = e.seq;
                        }
                    }
                    // a handle the dead process was moving (embed in progress, not completed): if it is not
                    // queued anywhere it died with the process
                    for (h, l) in lin.iter_mut() {
                        if let LState::InFlight(_, mid) = l.1 {
                            if owner.get(h) == Some(&pid) && !embed_done.contains(&mid) {
                                // the packet may or may not have been queued: possibly alive, never
                                // certainly alive and never certainly dead
                                l.1 = LState::Unknown;
                            }
                        }
                    }
                    // carrier receivers it held die with their queues
                    let dead_rx: Vec<i64> = rx_owner.iter().filter(|(_, p)| **p == pid).map(|(c, _)| *c).collect();
                    for ch in dead_rx {
                        if droprx.contains_key(&ch) {
                            continue;
                        }
                        droprx.insert(ch, (c, e.seq));
                        for (_h, l) in lin.iter_mut() {
                            if let LState::InFlight(cc, mid) = l.1 {
                                if cc == ch {
                                    l.1 = LState::Dead(c, e.seq);
                                    if !embed_done.contains(&mid) {
                                        late.insert(mid);
                                    }
                                }
                            }
                        }
                    }
                },
                "create" => {
                    lin.insert(e.a, (e.b, LState::Held));
                },
                "clone.ret" => {
                    clones += 1;
                    lin.insert(e.c, (e.b, LState::Held));
                    if let Some(p) = tid_pid.get(&e.tid) {
                        owner.insert(e.c, *p);
                    }
                },
                "drop.inv" | "droprx.inv" => {
                    pending_inv.insert((e.tid, e.op), e.seq);
                    // a handle's drop concerns its own channel; dropping a carrier's receiver concerns
                    // whatever is in flight inside it
                    pending_chan.insert((e.tid, e.op), if e.op == "drop.inv" { Some(e.b) } else { None });
                },
                "embed.inv" => {
                    // from here on the handle is alive in some form (sender's hands or in flight)
                    pending_inv.insert((e.tid, e.op), e.seq);
                    pending_chan.insert((e.tid, e.op), lin.get(&e.c).map(|l| l.0));
                    // the sender's own copy lives until its send returns, whatever the receiver does
                    possible_until.insert(e.c, u64::MAX);
                    if let Some(l) = lin.get_mut(&e.c) {
                        l.1 = LState::InFlight(e.b, e.a);
                    }
                },
                "drop.ret" => {
                    let inv = pending_inv.remove(&(e.tid, "drop.inv")).unwrap_or(e.seq);
                    if let Some(l) = lin.get_mut(&e.a) {
                        l.1 = LState::Dead(inv, e.seq);
                    }
                },
                "embed.ok" => {
                    pending_inv.remove(&(e.tid, "embed.inv"));
                    travelled += 1;
                    embed_done.insert(e.a);
                    possible_until.insert(e.c, e.seq);
                    // the carrying receiver was closed while the send was still returning
                    if late.remove(&e.a) {
                        if let Some(l) = lin.get_mut(&e.c) {
                            if let LState::Dead(di, dr) = l.1 {
                                l.1 = LState::Dead(di, dr.max(e.seq));
                            }
                        }
                    }
                },
                "embed.err" => {
                    let inv = pending_inv.remove(&(e.tid, "embed.inv")).unwrap_or(e.seq);
                    embed_done.insert(e.a);
                    possible_until.insert(e.c, e.seq);
                    late.remove(&e.a);
                    if let Some(l) = lin.get_mut(&e.c) {
                        l.1 = LState::Dead(inv, e.seq);
                    }
                },
                "extract.got" => {
                    if let Some(l) = lin.get_mut(&e.c) {
                        l.1 = LState::Held;
                    }
                    // whoever extracted it holds it now (observers live in process 0)
                    owner.insert(e.c, tid_pid.get(&e.tid).copied().unwrap_or(0));
                },
                "droprx.ret" => {
                    rx_owner.remove(&e.a);
                    let inv = pending_inv.remove(&(e.tid, "droprx.inv")).unwrap_or(e.seq);
                    droprx.insert(e.a, (inv, e.seq));
                    for (_h, l) in lin.iter_mut() {
                        if let LState::InFlight(c, mid) = l.1 {
                            if c == e.a {
                                l.1 = LState::Dead(inv, e.seq);
                                if !embed_done.contains(&mid) {
                                    late.insert(mid);
                                }
                            }
                        }
                    }
                },
                "hold" => {
                    if let Some(l) = lin.get_mut(&e.a) {
                        l.1 = LState::Forever;
                    }
                },
                _ => {},
            }
        }
        for (h, l) in lin.iter_mut() {
            if let (LState::Dead(di, dr), Some(pu)) = (l.1.clone(), possible_until.get(h)) {
                l.1 = LState::Dead(di, dr.max(*pu));
            }
        }
        // a drop/droprx/embed that was invoked but never returned (its thread is blocked or the
        // run ended): the handle may or may not be dead -> possibly dead from inv on, never certainly
        let unfinished: Vec<(u16, &'static str, u64, Option<i64>)> = pending_inv.iter().map(|(k, v)| (k.0, k.1, *v, pending_chan.get(k).copied().flatten())).collect();
        // messages per channel: (mid, send.inv, send.ret or None, ok)
        let mut msgs: Vec<(i64, i64, u64, Option<u64>, bool)> = vec![]; // mid, chan, inv, ret, ok
        for e in evs {
            match e.op {
                "send.inv" | "embed.inv" => msgs.push((e.a, e.b, e.seq, None, false)),
                "send.ok" | "embed.ok" | "send.err" | "embed.err" => {
                    if let Some(m) = msgs.iter_mut().find(|m| m.0 == e.a) {
                        m.3 = Some(e.seq);
                        m.4 = e.op.ends_with(".ok");
                    }
                },
                _ => {},
            }
        }
        let mut judged = 0u64;
        // receives made by actors on the carrier channels they hold (extract) are observations too:
        // translate them into the observers' vocabulary and judge those channels by the same rules
        let mut with_actor_obs: Vec<hist::Ev> = evs.to_vec();
        let mut actor_chans: Vec<u32> = vec![];
        for e in evs.iter().filter(|e| e.op.starts_with("extract.")) {
            let (op, chan, mid): (&'static str, i64, i64) = match e.op {
                "extract.inv" => ("obs.inv", e.a, 0),
                "extract.got" | "extract.data" => ("obs.data", e.b, e.a),
                "extract.empty" => ("obs.empty", e.a, 0),
                "extract.closed" => ("obs.closed", e.a, 0),
                "extract.err" => ("obs.err", e.a, 0),
                _ => continue,
            };
            if observed.contains(&(chan as u32)) {
                continue;
            }
            if !actor_chans.contains(&(chan as u32)) {
                actor_chans.push(chan as u32);
            }
            let mut x = e.clone();
            x.op = op;
            x.a = chan;
            x.b = mid;
            with_actor_obs.push(x);
        }
        with_actor_obs.sort_by_key(|e| e.seq);
        let evs = &with_actor_obs[..];
        let all_judged: Vec<u32> = observed.iter().copied().chain(actor_chans.iter().copied()).collect();
        for &c in &all_judged {
            let by_actor = actor_chans.contains(&c);
            let c = c as i64;
            // delivered set over time
            let mut delivered: Vec<(i64, u64)> = vec![]; // (mid, seq)
            let mut inv_seq = 0u64;
            let my_lin: Vec<(&i64, &(i64, LState))> = lin.iter().filter(|(_, l)| l.0 == c).collect();
            // certainly alive at instant t: not dead with death.inv <= t ; an unfinished drop counts as alive
            let certainly_alive_at = |t: u64| -> Option<i64> {
                for (h, l) in &my_lin {
                    match l.1 {
                        LState::Dead(inv, _) if inv <= t => {},
                        LState::Unknown => {},
                        _ => return Some(**h),
                    }
                }
                None
            };
            // possibly alive at t: not (dead with death.ret <= t); lineages born later count via parents
            let possibly_alive_at = |t: u64| -> bool {
                for (_h, l) in &my_lin {
                    match l.1 {
                        LState::Dead(_, ret) if ret <= t => {},
                        _ => return true,
                    }
                }
                // an unfinished operation on this channel keeps it possibly alive
                false
            };
            let closed_seen = evs.iter().any(|e| e.op == "obs.closed" && e.a == c);
            for e in evs.iter().filter(|e| e.a == c && e.op.starts_with("obs.")) {
                match e.op {
                    "obs.inv" => inv_seq = e.seq,
                    "obs.data" => {
                        if delivered.iter().any(|d| d.0 == e.b) {
                            out.viol("duplicate:recv", format!("channel {} delivered message {} twice", c, e.b));
                        }
                        if !msgs.iter().any(|m| m.0 == e.b && m.1 == c) {
                            out.viol("phantom:recv", format!("channel {} delivered message {} that was never sent on it", c, e.b));
                        }
                        delivered.push((e.b, e.seq));
                    },
                    "obs.closed" => {
                        judged += 1;
                        if let Some(h) = certainly_alive_at(e.seq) {
                            let st = &lin[&h].1;
                            out.viol(
                                "false-disconnect:recv",
                                format!("channel {} reported disconnected at #{} while sender handle {} certainly still existed ({:?})", c, e.seq, h, st),
                            );
                        }
                        for m in msgs.iter().filter(|m| m.1 == c && m.4) {
                            if !delivered.iter().any(|d| d.0 == m.0) {
                                out.viol("disconnect-before-delivery:recv", format!("channel {} reported disconnected before delivering message {} whose send had returned Ok", c, m.0));
                            }
                        }
                    },
                    "obs.empty" => {
                        judged += 1;
                        // (a) a message certainly available during the whole call
                        for m in msgs.iter().filter(|m| m.1 == c && m.4) {
                            if let Some(ret) = m.3 {
                                if ret < inv_seq && !delivered.iter().any(|d| d.0 == m.0) {
                                    out.viol("empty-with-message:try_recv", format!("channel {} reported empty (call #{}..#{}) although message {} had been completely sent (#{}) and not delivered", c, inv_seq, e.seq, m.0, ret));
                                }
                            }
                        }
                        // (b) nothing can exist any more: must say disconnected, not empty
                        if !possibly_alive_at(inv_seq) && !unfinished.iter().any(|u| u.2 < inv_seq && u.3.map(|ch| ch == c).unwrap_or(true)) {
                            out.viol("empty-when-disconnected:try_recv", format!("channel {} reported empty at #{} although every sender handle had been dropped before the call began", c, e.seq));
                        }
                    },
                    "obs.err" => {
                        out.viol("recv-error:recv", format!("channel {} receive failed: {}", c, e.s));
                    },
                    _ => {},
                }
            }
            if by_actor {
                continue;
            }
            // blocked observer at quiescence
            if let Some(b) = blocked.iter().find(|b| b.label == format!("observer{}", c)) {
                judged += 1;
                let last = evs.last().map(|e| e.seq).unwrap_or(0);
                let any_unfinished = unfinished.iter().any(|u| u.3.map(|ch| ch == c).unwrap_or(true));
                if !possibly_alive_at(last) && !any_unfinished {
                    out.viol("hang:recv", format!("observer of channel {} blocked forever in {} although every sender handle is gone", c, b.in_call));
                }
                for m in msgs.iter().filter(|m| m.1 == c && m.4) {
                    if !delivered.iter().any(|d| d.0 == m.0) {
                        out.viol("hang-with-message:recv", format!("observer of channel {} blocked forever although message {} was completely sent and not delivered", c, m.0));
                    }
                }
            } else if !closed_seen && !evs.iter().any(|e| e.a == c && (e.op == "obs.quit" || e.op == "obs.err")) {
                // observer thread vanished without a verdict: it panicked
                out.viol("observer-died:recv", format!("observer of channel {} died without a result (panic in the receive path?)", c));
            }
            // a polling observer that gave up while the channel was certainly dead and drained
            if evs.iter().any(|e| e.a == c && e.op == "obs.quit") {
                out.probe("observer_gave_up", 1);
            }
        }
        // actors blocked forever: sends to live receivers must not hang (receivers are observed or held)
        for b in &blocked {
            if b.label.starts_with("actor") && (b.in_call == "send" || b.in_call == "sendmsg") {
                out.probe("actor_blocked_in_send", 1);
            }
        }
        for pn in hist::panics() {
            if pn.loc.contains("/repo/") || pn.loc.starts_with("src/") {
                out.viol(&hist::panic_sig(pn), format!("library panic: {} at {}", pn.msg, pn.loc));
            }
        }
        out.nontrivial = (travelled > 0 || clones > 0) && judged > 0;
        out.probe("handles_travelled", travelled);
        out.probe("clones", clones);
        out.probe("verdicts_judged", judged);
        out.probe("lineages_dead", lin.values().filter(|l| matches!(l.1, LState::Dead(..))).count() as u64);
        out.sample = json!({"channels": nch, "actors": nact, "observed": observed, "events": evs.len(), "travelled": travelled, "judged": judged});
        out
    }
}
