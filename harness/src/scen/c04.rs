//! C04 — endpoints sent inside messages keep their identity, position and backlog.
use super::util::{predict_frag, spawn_process};
use super::*;
use crate::hist;
use ipc_channel::ipc::{self, IpcBytesReceiver, IpcBytesSender, IpcError, IpcReceiver, IpcSender, IpcSharedMemory, OpaqueIpcSender};
use serde::{Deserialize, Serialize};
use std::collections::BTreeMap;

pub struct C04S;
pub static C04: C04S = C04S;

#[derive(Serialize, Deserialize)]
pub enum V {
    Unit,
    Num(u64),
    Str(String),
    Bytes(Vec<u8>),
    Tx(u32, IpcSender<u32>),
    Rx(u32, IpcReceiver<u32>),
    OTx(u32, OpaqueIpcSender),
    BTx(u32, IpcBytesSender),
    BRx(u32, IpcBytesReceiver),
    Reg(u32, IpcSharedMemory),
    List(Vec<V>),
    Opt(Option<Box<V>>),
    Pair(Box<V>, Box<V>),
    Map(BTreeMap<String, V>),
}
fn reg_bytes(cid: u32) -> Vec<u8> {
    (0..(1 + (cid as usize * 37) % 5000)).map(|i| (i as u32 * 13 + cid) as u8).collect()
}
/// Structure of a value with endpoints shown as kind#cid (identity + position, no descriptors).
fn shape(v: &V, out: &mut String) {
    match v {
        V::Unit => out.push('u'),
        V::Num(n) => out.push_str(&format!("n{}", n)),
        V::Str(s) => out.push_str(&format!("s{}:{}", s.len(), s)),
        V::Bytes(b) => out.push_str(&format!("b{}:{:x}", b.len(), b.iter().fold(0u64, |a, x| a.wrapping_mul(31).wrapping_add(*x as u64)))),
        V::Tx(c, _) => out.push_str(&format!("Tx#{}", c)),
        V::Rx(c, _) => out.push_str(&format!("Rx#{}", c)),
        V::OTx(c, _) => out.push_str(&format!("OTx#{}", c)),
        V::BTx(c, _) => out.push_str(&format!("BTx#{}", c)),
        V::BRx(c, _) => out.push_str(&format!("BRx#{}", c)),
        V::Reg(c, _) => out.push_str(&format!("Reg#{}", c)),
        V::List(l) => {
            out.push('[');
            for x in l {
                shape(x, out);
                out.push(',');
            }
            out.push(']');
        },
        V::Opt(o) => {
            out.push('?');
            if let Some(x) = o {
                shape(x, out);
            }
        },
        V::Pair(a, b) => {
            out.push('(');
            shape(a, out);
            out.push('|');
            shape(b, out);
            out.push(')');
        },
        V::Map(m) => {
            out.push('{');
            for (k, x) in m {
                out.push_str(k);
                out.push('=');
                shape(x, out);
                out.push(';');
            }
            out.push('}');
        },
    }
}
/// What the rest of the system keeps for an embedded endpoint.
enum Peer {
    WatchRx(u32, IpcReceiver<u32>),
    WatchBRx(u32, IpcBytesReceiver),
    Nothing,
}
struct Builder<'a> {
    r: &'a mut Rng,
    next_cid: u32,
    budget: u32,
    peers: Vec<Peer>,
    pad: usize,
}
impl<'a> Builder<'a> {
    fn endpoint(&mut self) -> V {
        let cid = self.next_cid;
        self.next_cid += 1;
        self.budget -= 1;
        match self.r.below(6) {
            0 => {
                let (t, r) = ipc::channel::<u32>().unwrap();
                self.peers.push(Peer::WatchRx(cid, r));
                V::Tx(cid, t)
            },
            1 => {
                let (t, r) = ipc::channel::<u32>().unwrap();
                t.send(cid).unwrap();
                // a clone of the sender stays with a watcher-less holder: dropped right away
                drop(t);
                V::Rx(cid, r)
            },
            2 => {
                let (t, r) = ipc::channel::<u32>().unwrap();
                self.peers.push(Peer::WatchRx(cid, r));
                V::OTx(cid, t.to_opaque())
            },
            3 => {
                let (t, r) = ipc::bytes_channel().unwrap();
                self.peers.push(Peer::WatchBRx(cid, r));
                V::BTx(cid, t)
            },
            4 => {
                let (t, r) = ipc::bytes_channel().unwrap();
                t.send(&cid.to_le_bytes()).unwrap();
                drop(t);
                V::BRx(cid, r)
            },
            _ => {
                self.peers.push(Peer::Nothing);
                V::Reg(cid, IpcSharedMemory::from_bytes(&reg_bytes(cid)))
            },
        }
    }
    fn plain(&mut self) -> V {
        match self.r.below(5) {
            0 => V::Unit,
            1 => V::Num(self.r.next()),
            2 => V::Str((0..self.r.below(10)).map(|_| (b'a' + self.r.below(26) as u8) as char).collect()),
            3 if self.pad > 0 => {
                let n = self.pad;
                self.pad = 0;
                V::Bytes((0..n).map(|i| i as u8).collect())
            },
            _ => V::Bytes((0..self.r.below(30)).map(|_| self.r.next() as u8).collect()),
        }
    }
    fn value(&mut self, depth: u32) -> V {
        let want_ep = self.budget > 0 && self.r.chance(2, 5);
        if want_ep {
            return self.endpoint();
        }
        if depth >= 4 || self.r.chance(1, 3) {
            return self.plain();
        }
        match self.r.below(4) {
            0 => {
                let n = self.r.range(0, 6);
                V::List((0..n).map(|_| self.value(depth + 1)).collect())
            },
            1 => V::Opt(if self.r.chance(3, 4) { Some(Box::new(self.value(depth + 1))) } else { None }),
            2 => {
                let a = self.value(depth + 1);
                let b = self.value(depth + 1);
                V::Pair(Box::new(a), Box::new(b))
            },
            _ => {
                let n = self.r.range(0, 4);
                let mut m = BTreeMap::new();
                for i in 0..n {
                    m.insert(format!("k{}", i), self.value(depth + 1));
                }
                V::Map(m)
            },
        }
    }
}
/// Walk a received value and probe every endpoint in it.
fn probe(v: V) {
    match v {
        V::Tx(c, t) => {
            let r = t.send(c * 2 + 1);
            hist::log("probe", c as i64, r.is_ok() as i64, 0, "tx");
        },
        V::OTx(c, t) => {
            let r = t.to::<u32>().send(c * 2 + 1);
            hist::log("probe", c as i64, r.is_ok() as i64, 0, "otx");
        },
        V::BTx(c, t) => {
            let r = t.send(&(c * 2 + 1).to_le_bytes());
            hist::log("probe", c as i64, r.is_ok() as i64, 0, "btx");
        },
        V::Rx(c, r) => {
            let tok = r.try_recv().ok();
            hist::log("probe", c as i64, (tok == Some(c)) as i64, 0, "rx");
        },
        V::BRx(c, r) => {
            let tok = r.try_recv().ok();
            hist::log("probe", c as i64, (tok.as_deref() == Some(&c.to_le_bytes()[..])) as i64, 0, "brx");
        },
        V::Reg(c, m) => {
            hist::log("probe", c as i64, (&m[..] == &reg_bytes(c)[..]) as i64, 0, "reg");
        },
        V::List(l) => l.into_iter().for_each(probe),
        V::Opt(Some(x)) => probe(*x),
        V::Pair(a, b) => {
            probe(*a);
            probe(*b);
        },
        V::Map(m) => m.into_values().for_each(probe),
        _ => {},
    }
}

fn run_value(p: &Value, out: &mut Outcome) {
    let seed = p["vseed"].as_u64().unwrap_or(1);
    let mut r = Rng::new(seed);
    let budget = p["endpoints"].as_u64().unwrap_or(4).min(66) as u32;
    let pad = p["pad"].as_u64().unwrap_or(0).min(4 << 20) as usize;
    let mut b = Builder { r: &mut r, next_cid: 1, budget, peers: vec![], pad };
    // top level: a list so that the endpoint budget is actually used
    let mut items = vec![];
    let n_items = p["items"].as_u64().unwrap_or(3).clamp(1, 40);
    for _ in 0..n_items {
        items.push(b.value(0));
    }
    while b.budget > 0 && p["fill"].as_bool().unwrap_or(false) {
        items.push(b.endpoint());
    }
    if b.pad > 0 {
        items.push(b.plain());
        if b.pad > 0 {
            let n = b.pad;
            b.pad = 0;
            items.push(V::Bytes((0..n).map(|i| i as u8).collect()));
        }
    }
    let n_ep = b.next_cid - 1;
    let peers = std::mem::take(&mut b.peers);
    let v = V::List(items);
    let mut sent_shape = String::new();
    shape(&v, &mut sent_shape);
    for pr in peers {
        match pr {
            Peer::WatchRx(c, rx) => {
                sim::spawn(&format!("watcher{}", c), None, move || loop {
                    match rx.recv() {
                        Ok(x) => {
                            hist::log("watch.got", c as i64, x as i64, 0, "");
                        },
                        Err(_) => return,
                    }
                });
            },
            Peer::WatchBRx(c, rx) => {
                sim::spawn(&format!("watcher{}", c), None, move || loop {
                    match rx.recv() {
                        Ok(x) => {
                            let val = if x.len() == 4 { u32::from_le_bytes([x[0], x[1], x[2], x[3]]) } else { 0 };
                            hist::log("watch.got", c as i64, val as i64, 0, "");
                        },
                        Err(_) => return,
                    }
                });
            },
            Peer::Nothing => {},
        }
    }
    let (tx, rx) = ipc::channel::<V>().unwrap();
    let via_proc = p["receiver_proc"].as_bool().unwrap_or(false) && !cfg!(feature = "inproc");
    let body = move |rx: IpcReceiver<V>| match rx.recv() {
        Ok(v) => {
            let mut s = String::new();
            shape(&v, &mut s);
            hist::log("recv.ok", 0, 0, 0, &s);
            probe(v);
            hist::log("receiver.done", 0, 0, 0, "");
        },
        Err(e) => {
            hist::log("recv.err", 0, 0, 0, &format!("{:?}", e));
        },
    };
    if via_proc {
        spawn_process("receiver", 5, rx, body);
    } else {
        sim::spawn("receiver", None, move || body(rx));
    }
    sim::spawn("sender", None, move || {
        hist::log("send.inv", n_ep as i64, 0, 0, "");
        let r = tx.send(v);
        match r {
            Ok(()) => hist::log("send.ok", 0, 0, 0, ""),
            Err(e) => hist::log("send.err", 0, 0, 0, &e.to_string()),
        };
    });
    let blocked = sim::settle();
    let evs = hist::events();
    // up to 63 descriptors always fit (one more is needed for a multi-packet message); from 64 on a
    // refusal is legitimate (C15's subject) - but whatever is accepted must still arrive intact
    if let Some(e) = evs.iter().find(|e| e.op == "send.err").filter(|_| n_ep <= 63) {
        out.viol("send-refused:send", format!("a value with {} endpoints (within transport capacity) was refused: {}", n_ep, e.s));
    }
    match evs.iter().find(|e| e.op == "recv.ok") {
        Some(e) => {
            if e.s != sent_shape {
                let at = e.s.bytes().zip(sent_shape.bytes()).position(|(a, b)| a != b).unwrap_or(0);
                out.viol("structure-or-position:recv", format!("the received value differs from the sent one at offset {} of its structure: sent ...{}... received ...{}...", at, &sent_shape[at.saturating_sub(20)..(at + 30).min(sent_shape.len())], &e.s[at.saturating_sub(20).min(e.s.len())..(at + 30).min(e.s.len())]));
            }
        },
        None => {
            if evs.iter().any(|e| e.op == "send.ok") {
                out.viol("lost:recv", format!("the message was sent but not received ({})", evs.iter().find(|e| e.op == "recv.err").map(|e| e.s.clone()).unwrap_or_default()));
            }
        },
    }
    for e in evs.iter().filter(|e| e.op == "probe") {
        let c = e.a;
        match e.s.as_str() {
            "tx" | "otx" | "btx" => {
                if e.b != 1 || !evs.iter().any(|w| w.op == "watch.got" && w.a == c && w.b == c * 2 + 1) {
                    out.viol("wrong-endpoint:recv", format!("the {} endpoint received in position of channel {} is not a working endpoint of that channel", e.s, c));
                }
            },
            _ => {
                if e.b != 1 {
                    out.viol("wrong-endpoint:recv", format!("the {} received in position of channel {} is not that channel / does not have its contents", e.s, c));
                }
            },
        }
    }
    if evs.iter().any(|e| e.op == "recv.ok") && !evs.iter().any(|e| e.op == "receiver.done") {
        out.viol("receiver-died:recv", "the receiver died while using the received endpoints".into());
    }
    for b in &blocked {
        if b.label == "receiver" || b.label == "sender" {
            out.viol(&format!("hang:{}", b.label), format!("{} blocked forever in {}", b.label, b.in_call));
        }
    }
    out.nontrivial = n_ep >= 2;
    out.probe("endpoints", n_ep as u64);
    out.probe("at_or_over_capacity", (n_ep >= 64) as u64);
    out.probe("value_cases", 1);
    out.sample = json!({"part": "value", "endpoints": n_ep, "pad": pad, "shape": &sent_shape[..sent_shape.len().min(200)]});
}

fn run_chain(p: &Value, out: &mut Outcome) {
    let hops: Vec<Value> = p["hops"].as_array().cloned().unwrap_or_default().into_iter().take(5).collect();
    let senders: Vec<Value> = p["senders"].as_array().cloned().unwrap_or_default().into_iter().take(3).collect();
    let (tx, rx) = ipc::channel::<Vec<u8>>().unwrap();
    // carrier channels, one per hop
    let mut carriers: Vec<(IpcSender<IpcReceiver<Vec<u8>>>, IpcReceiver<IpcReceiver<Vec<u8>>>)> = hops.iter().map(|_| ipc::channel().unwrap()).collect();
    for (i, s) in senders.iter().enumerate() {
        let t = tx.clone();
        let script = s.as_array().cloned().unwrap_or_default();
        sim::spawn(&format!("sender{}", i), None, move || {
            let mut q = 0u32;
            for op in script {
                match op[0].as_str().unwrap_or("") {
                    "sleep" => sim::sleep_ns(op[1].as_u64().unwrap_or(0).min(100_000) * 1000),
                    _ => {
                        let pl = make_payload(4, i as u32, q, op[1].as_u64().unwrap_or(16).min(1 << 20) as usize);
                        hist::log("send.inv", i as i64, q as i64, 0, "");
                        let r = t.send(pl);
                        hist::log(if r.is_ok() { "send.ok" } else { "send.err" }, i as i64, q as i64, 0, "");
                        q += 1;
                    },
                }
            }
            drop(t);
        });
    }
    drop(tx);
    // holders: holder k receives the receiver from carrier k-1 (holder 0 starts with it)
    let nh = hops.len();
    let mut next_tx: Vec<Option<IpcSender<IpcReceiver<Vec<u8>>>>> = vec![];
    let mut my_rx: Vec<Option<IpcReceiver<IpcReceiver<Vec<u8>>>>> = vec![];
    for (t, r) in carriers.drain(..) {
        next_tx.push(Some(t));
        my_rx.push(Some(r));
    }
    fn take_some(rx: &IpcReceiver<Vec<u8>>, n: u64, holder: usize) {
        for _ in 0..n {
            match rx.try_recv() {
                Ok(v) => match check_payload(&v) {
                    Ok((_, s, q)) => {
                        hist::log("deliver", s as i64, q as i64, holder as i64, "");
                    },
                    Err(e) => {
                        hist::log("deliver.bad", holder as i64, 0, 0, &e);
                    },
                },
                Err(_) => break,
            }
        }
    }
    fn drain(rx: &IpcReceiver<Vec<u8>>, holder: usize) {
        loop {
            match rx.recv() {
                Ok(v) => match check_payload(&v) {
                    Ok((_, s, q)) => {
                        hist::log("deliver", s as i64, q as i64, holder as i64, "");
                    },
                    Err(e) => {
                        hist::log("deliver.bad", holder as i64, 0, 0, &e);
                    },
                },
                Err(IpcError::Disconnected) => {
                    hist::log("drain.closed", holder as i64, 0, 0, "");
                    return;
                },
                Err(e) => {
                    hist::log("drain.err", holder as i64, 0, 0, &format!("{:?}", e));
                    return;
                },
            }
        }
    }
    // holder 0
    {
        let fwd = next_tx[0].take();
        let take = hops.first().map(|h| h["take"].as_u64().unwrap_or(0)).unwrap_or(0);
        let delay = hops.first().map(|h| h["delay_us"].as_u64().unwrap_or(0)).unwrap_or(0).min(100_000);
        sim::spawn("holder0", None, move || {
            sim::sleep_ns(delay * 1000);
            take_some(&rx, take, 0);
            match fwd {
                Some(f) => {
                    hist::log("hop.inv", 0, 0, 0, "");
                    let r = f.send(rx);
                    hist::log(if r.is_ok() { "hop.ok" } else { "hop.err" }, 0, 0, 0, "");
                },
                None => drain(&rx, 0),
            }
        });
    }
    for k in 1..=nh {
        let from = my_rx[k - 1].take().unwrap();
        let fwd = if k < nh { next_tx[k].take() } else { None };
        let h = if k < nh { hops[k].clone() } else { Value::Null };
        let take = h["take"].as_u64().unwrap_or(0);
        let delay = h["delay_us"].as_u64().unwrap_or(0).min(100_000);
        let is_proc = hops[k - 1]["to_proc"].as_bool().unwrap_or(false) && !cfg!(feature = "inproc");
        let body = move |(from, fwd): (IpcReceiver<IpcReceiver<Vec<u8>>>, Option<IpcSender<IpcReceiver<Vec<u8>>>>)| {
            let rx = match from.recv() {
                Ok(r) => r,
                Err(e) => {
                    hist::log("hop.recv.err", k as i64, 0, 0, &format!("{:?}", e));
                    return;
                },
            };
            hist::log("hop.got", k as i64, 0, 0, "");
            sim::sleep_ns(delay * 1000);
            match fwd {
                Some(f) => {
                    take_some(&rx, take, k);
                    hist::log("hop.inv", k as i64, 0, 0, "");
                    let r = f.send(rx);
                    hist::log(if r.is_ok() { "hop.ok" } else { "hop.err" }, k as i64, 0, 0, "");
                },
                None => drain(&rx, k),
            }
        };
        if is_proc {
            spawn_process(&format!("holder{}", k), 10 + k as u32, (from, fwd), body);
        } else {
            sim::spawn(&format!("holder{}", k), None, move || body((from, fwd)));
        }
    }
    let blocked = sim::settle();
    let evs = hist::events();
    let mut delivered: Vec<(i64, i64, i64)> = vec![];
    for e in evs {
        match e.op {
            "deliver" => {
                if delivered.iter().any(|d| d.0 == e.a && d.1 == e.b) {
                    out.viol("duplicate:recv", format!("message ({},{}) was delivered twice (second time at holder {})", e.a, e.b, e.c));
                }
                if let Some(prev) = delivered.iter().filter(|d| d.0 == e.a).last() {
                    if prev.1 > e.b {
                        out.viol("order:recv", format!("sender {}: message {} delivered (holder {}) after message {} (holder {})", e.a, e.b, e.c, prev.1, prev.2));
                    }
                }
                delivered.push((e.a, e.b, e.c));
            },
            "deliver.bad" => out.viol("torn:recv", format!("holder {}: {}", e.a, e.s)),
            "hop.err" | "hop.recv.err" | "drain.err" => out.viol("transfer-failed:send", format!("hop {} failed: {} {}", e.a, e.op, e.s)),
            _ => {},
        }
    }
    let closed = evs.iter().any(|e| e.op == "drain.closed");
    for e in evs.iter().filter(|e| e.op == "send.ok") {
        if !delivered.iter().any(|d| d.0 == e.a && d.1 == e.b) {
            out.viol("lost:recv", format!("message ({},{}) was sent successfully but no holder of the transferred receiver ever got it (final holder closed: {})", e.a, e.b, closed));
        }
    }
    for e in evs.iter().filter(|e| e.op == "send.err") {
        out.viol("send-failed-during-transfer:send", format!("send ({},{}) failed although the receiver exists (in transit or held)", e.a, e.b));
    }
    for b in &blocked {
        if b.label.starts_with("holder") || b.label.starts_with("sender") {
            out.viol(&format!("hang:{}", if b.label.starts_with("holder") { "recv" } else { "send" }), format!("{} blocked forever in {}", b.label, b.in_call));
        }
    }
    let in_transit_sends = evs.iter().filter(|e| e.op == "send.inv").filter(|s| evs.iter().any(|h| h.op == "hop.inv" && h.seq < s.seq) && !evs.iter().any(|d| d.op == "drain.closed" && d.seq < s.seq)).count();
    out.nontrivial = nh >= 1 && !delivered.is_empty();
    out.probe("hops", nh as u64);
    out.probe("chain_cases", 1);
    out.probe("delivered_before_last_hop", delivered.iter().filter(|d| (d.2 as usize) < nh).count() as u64);
    out.probe("sends_after_first_hop", in_transit_sends as u64);
    out.sample = json!({"part": "chain", "hops": nh, "senders": senders.len(), "delivered": delivered.len()});
}

impl Scenario for C04S {
    fn id(&self) -> &'static str {
        "C04"
    }
    fn variants(&self) -> &'static [&'static str] {
        &["os", "memfd", "inproc"]
    }
    fn count(&self, tier: Tier, variant: &str) -> u64 {
        match (tier, variant) {
            (Tier::Quick, "os") => 30_000,
            (Tier::Quick, _) => 8000,
            (Tier::Thorough, "os") => 1_200_000,
            (Tier::Thorough, _) => 300_000,
        }
    }
    fn rule(&self) -> &'static str {
        "case = either (value) a seeded nested value (lists, options, pairs, maps, plain data) embedding 0..65 endpoints of mixed kinds (from 64 on a refusal is accepted, an acceptance must still deliver everything) (sender, receiver, opaque sender, bytes sender/receiver) and regions at random positions, small or padded to multi-packet size, received by a thread or a sim-process that compares structure/position and probes every endpoint with a nonce; or (chain) a receiver transferred over 1..5 hops between threads and sim-processes, each holder consuming 0..k pending messages before passing it on, while 1..3 senders keep sending before, during and after the hops; non-trivial = >=2 endpoints, or >=1 hop with deliveries; distinct = distinct (case, schedule hash)"
    }
    fn gen(&self, seed: u64, idx: u64, _tier: Tier, variant: &str) -> Value {
        let mut r = Rng::stream(seed, idx.wrapping_mul(2654435761).wrapping_add(0xC04));
        let inproc = variant == "inproc";
        let mut sim = sim_json(&mut r, seed ^ idx.wrapping_mul(0x9E37));
        if r.chance(1, 2) && !inproc {
            sim["sndbuf"] = json!(*r.pick(&[2304u64, 4096, 8192]));
        }
        let (first, _) = predict_frag(sim["sndbuf"].as_u64(), inproc);
        if r.chance(1, 2) {
            let big = r.chance(1, 8);
            json!({"sim": sim, "part": "value", "vseed": r.next(), "items": r.range(1, 12),
                   "endpoints": if big { r.range(40, 65) } else { r.range(0, 12) }, "fill": big,
                   "pad": if r.chance(1, 3) && first != usize::MAX { first as u64 + r.below(3 * first as u64) } else { 0 },
                   "receiver_proc": r.chance(1, 3)})
        } else {
            let nh = r.range(1, 5);
            let hops: Vec<Value> = (0..nh).map(|_| json!({"take": r.below(6), "delay_us": *r.pick(&[0u64, 0, 100, 1500]), "to_proc": r.chance(1, 3)})).collect();
            let ns = r.range(1, 3);
            let senders: Vec<Value> = (0..ns)
                .map(|_| {
                    let n = r.range(1, 10);
                    let mut s = vec![];
                    for _ in 0..n {
                        if r.chance(1, 3) {
                            s.push(json!(["sleep", *r.pick(&[0u64, 50, 400, 2000])]));
                        }
                        s.push(json!(["send", if r.chance(1, 6) { size_classes(&mut r, first) as u64 } else { r.range(16, 100) }]));
                    }
                    json!(s)
                })
                .collect();
            json!({"sim": sim, "part": "chain", "hops": hops, "senders": senders})
        }
    }
    fn run(&self, p: &Value) -> Outcome {
        let mut out = Outcome::default();
        start_sim(p);
        if p["part"].as_str() == Some("chain") {
            run_chain(p, &mut out);
        } else {
            run_value(p, &mut out);
        }
        for pn in hist::panics() {
            out.viol(&hist::panic_sig(pn), format!("panic in [{}]: {} at {}", pn.label, pn.msg, pn.loc));
        }
        out
    }
}
