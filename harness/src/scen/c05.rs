//! C05 — shared-memory regions arrive with identical contents.
use super::util::spawn_process;
use super::*;
use crate::hist;
use ipc_channel::ipc::{self, IpcReceiver, IpcSender, IpcSharedMemory};
use serde::{Deserialize, Serialize};

pub struct C05S;
pub static C05: C05S = C05S;

#[derive(Serialize, Deserialize)]
pub struct M5 {
    pub regs: Vec<(u32, IpcSharedMemory)>,
    pub pad: Vec<u8>,
    pub extra: Option<IpcSender<u32>>,
}
/// expected contents of region `i` described by (kind, len, seed)
fn expect_bytes(spec: &Value) -> Vec<u8> {
    let len = spec["len"].as_u64().unwrap_or(0).min(64 << 20) as usize;
    if spec["fill"].is_u64() {
        vec![spec["fill"].as_u64().unwrap() as u8; len]
    } else {
        let mut r = Rng::new(spec["seed"].as_u64().unwrap_or(7));
        let mut v = vec![0u8; len];
        r.fill(&mut v);
        v
    }
}
fn check(who: &str, idx: usize, m: &IpcSharedMemory, want: &[u8]) {
    let ok = &m[..] == want;
    if !ok {
        let at = m.iter().zip(want.iter()).position(|(a, b)| a != b);
        hist::log("mismatch", idx as i64, m.len() as i64, want.len() as i64, &format!("{}: first difference at {:?} (got {:?}, want {:?})", who, at, at.map(|i| m[i]), at.map(|i| want[i])));
    } else {
        hist::log("match", idx as i64, m.len() as i64, 0, who);
    }
}

fn make_region(sp: &Value) -> (IpcSharedMemory, Vec<u8>) {
    let want = expect_bytes(sp);
    let g = if sp["fill"].is_u64() { IpcSharedMemory::from_byte(sp["fill"].as_u64().unwrap() as u8, want.len()) } else { IpcSharedMemory::from_bytes(&want) };
    (g, want)
}

/// Forked-child family: "received in the same or a forked process". The child is a real fork()
/// of the simulated program (a copy of the library's statics and of the parent's mappings), see
/// `sim::fork_real`.
fn run_fork(p: &Value) -> Outcome {
    let mut out = Outcome::default();
    start_sim(p);
    let pre: Vec<Value> = p["regs"].as_array().cloned().unwrap_or_default().into_iter().take(6).collect();
    let child_specs: Vec<Value> = p["fork"]["child"].as_array().cloned().unwrap_or_default().into_iter().take(4).collect();
    let post: Vec<Value> = p["fork"]["post"].as_array().cloned().unwrap_or_default().into_iter().take(4).collect();
    let hold = p["fork"]["hold"].as_bool().unwrap_or(true);
    let pre2 = pre.clone();
    sim::spawn("parent", Some(2), move || {
        // before the fork: regions exist (the process id is cached, the name counter has advanced),
        // and a message carrying clones of them is queued on a channel
        let mut mine = vec![];
        for (i, sp) in pre2.iter().enumerate() {
            let (g, want) = make_region(sp);
            check("creator", i, &g, &want);
            mine.push((g, want));
        }
        let (tx, rx) = ipc::channel::<M5>().unwrap();
        let m = M5 { regs: mine.iter().enumerate().map(|(i, (g, _))| (i as u32, g.clone())).collect(), pad: vec![], extra: None };
        match tx.send(m) {
            Ok(()) => hist::log("send.ok", 0, 0, 0, ""),
            Err(e) => hist::log("send.err", 0, 0, 0, &e.to_string()),
        };
        let inherited: Vec<(IpcSharedMemory, Vec<u8>)> = mine.iter().map(|(g, w)| (g.clone(), w.clone())).collect();
        let cs = child_specs.clone();
        let child = sim::fork_real(hold, move || {
            // ---- in the forked child (a real process, outside the simulation) ----
            for (g, w) in inherited.iter() {
                if &g[..] != &w[..] {
                    return 11;
                }
            }
            match rx.recv() {
                Ok(m) => {
                    if m.regs.len() != inherited.len() {
                        return 13;
                    }
                    for (k, (i, g)) in m.regs.iter().enumerate() {
                        if *i as usize != k || &g[..] != &inherited[k].1[..] {
                            return 12;
                        }
                    }
                },
                Err(_) => return 14,
            }
            for sp in cs.iter() {
                let (g, want) = make_region(sp);
                if &g[..] != &want[..] || &g.clone()[..] != &want[..] {
                    return 15;
                }
            }
            0
        });
        let parked = child.wait_parked();
        hist::log("child.parked", parked as i64, 0, 0, "");
        // the parent goes on creating regions while the child is inside its own creation
        for (i, sp) in post.iter().enumerate() {
            let (g, want) = make_region(sp);
            check("creator-after-fork", 100 + i, &g, &want);
        }
        let (code, msg) = child.wait();
        hist::log("child.exit", code as i64, 0, 0, &msg);
        for (i, (g, w)) in mine.iter().enumerate() {
            check("creator-after-child-exit", i, g, w);
        }
        drop(tx);
        hist::log("parent.done", 0, 0, 0, "");
    });
    let blocked = sim::settle();
    let evs = hist::events();
    for e in evs.iter().filter(|e| e.op == "mismatch") {
        let who = e.s.split(':').next().unwrap_or("?").to_string();
        out.viol(&format!("contents:{}", who), format!("region {}: has length {} (expected {}); {}", e.a, e.b, e.c, e.s));
    }
    if let Some(e) = evs.iter().find(|e| e.op == "send.err") {
        out.viol("send-failed:send", e.s.clone());
    }
    if let Some(e) = evs.iter().find(|e| e.op == "child.exit") {
        let what = match e.a {
            0 => None,
            11 => Some("a region inherited across fork() reads differently in the child".to_string()),
            12 => Some("a region received by the forked child differs from what was sent (or arrived out of order)".to_string()),
            13 => Some("the forked child received a different number of regions".to_string()),
            14 => Some("the forked child could not receive the queued message".to_string()),
            15 => Some("a region created in the forked child reads back wrong".to_string()),
            101 => Some(format!("the forked child panicked: {}", e.s)),
            c => Some(format!("the forked child ended abnormally (status {})", c)),
        };
        if let Some(w) = what {
            let short: String = e.s.chars().filter(|c| !c.is_ascii_digit()).take(50).collect();
            out.viol(&format!("forked-child:{}{}", e.a, if e.a == 101 { format!(":{}", short) } else { String::new() }), w);
        }
    }
    for b in &blocked {
        if b.label == "parent" {
            out.viol("hang:parent", format!("parent blocked forever in {}", b.in_call));
        }
    }
    for pn in hist::panics() {
        out.viol(&hist::panic_sig(pn), format!("panic in [{}]: {} at {}", pn.label, pn.msg, pn.loc));
    }
    out.nontrivial = true;
    out.probe("forked_children", 1);
    out.probe("forked_child_parked_in_creation", evs.iter().any(|e| e.op == "child.parked" && e.a == 1) as u64);
    out.probe("comparisons", evs.iter().filter(|e| e.op == "match").count() as u64);
    out.sample = json!({"family": "fork", "pre": pre.len(), "hold": hold});
    out
}

impl Scenario for C05S {
    fn id(&self) -> &'static str {
        "C05"
    }
    fn variants(&self) -> &'static [&'static str] {
        &["os", "memfd", "inproc"]
    }
    fn count(&self, tier: Tier, variant: &str) -> u64 {
        match (tier, variant) {
            (Tier::Quick, "os") => 30_000,
            (Tier::Quick, _) => 10_000,
            (Tier::Thorough, "os") => 1_000_000,
            (Tier::Thorough, _) => 300_000,
        }
    }
    fn rule(&self) -> &'static str {
        "case = 1..8 regions per message, each from_bytes(random contents) or from_byte(fill, len), lengths dense around 0, 1, 7/8/9, page-1/page/page+1, 2 pages +-1 plus random up to 256 KiB (quick) / 32 MiB (thorough), cloned 0..3 times before sending, placed in the message in a seeded permutation of the creation order, optionally next to an endpoint and a multi-packet data part; received by a thread or a sim-process; one case in eight is the forked-child family (regions created, cloned and queued in a message, then a real fork(): the child - a copy of the library's statics and mappings, running outside the simulation - compares the inherited regions, receives the queued message, creates regions of its own, on the shm_open build parked inside its first creation - the named object still existing - while the parent creates more; on the memfd build, which has no named object, the child simply runs to its end first); contents compared in the creator, every clone, the creator's copies again after the send, the receiver, and again after the sender's copies, the message and the carrying channel are gone (optionally after the sending sim-process crashed); non-trivial = at least one region of non-zero length that is not a multiple of 8; distinct = distinct (case, schedule hash)"
    }
    fn gen(&self, seed: u64, idx: u64, tier: Tier, variant: &str) -> Value {
        let mut r = Rng::stream(seed, idx.wrapping_mul(2654435761).wrapping_add(0xC05));
        let mut sim = sim_json(&mut r, seed ^ idx.wrapping_mul(0x9E37));
        if variant != "inproc" && idx % 8 == 5 {
            // forked-child family: regions created before a real fork(), inherited and received by
            // the child, and created on both sides of the fork at overlapping instants
            let page = 4096u64;
            let mut mk = |r: &mut Rng| {
                let len = *r.pick(&[0u64, 1, 9, page - 1, page, page + 1, 2 * page + 1, 70_001]);
                if r.chance(1, 2) { json!({"len": len, "fill": r.range(0, 255), "clones": 0}) } else { json!({"len": len, "seed": r.next() >> 8, "clones": 0}) }
            };
            let pre: Vec<Value> = (0..r.range(1, 4)).map(|_| mk(&mut r)).collect();
            let child: Vec<Value> = (0..r.range(1, 3)).map(|_| mk(&mut r)).collect();
            let post: Vec<Value> = (0..r.range(1, 3)).map(|_| mk(&mut r)).collect();
            return json!({"sim": sim, "regs": pre, "fork": {"child": child, "post": post, "hold": r.chance(3, 4)}});
        }
        if variant != "inproc" {
            sim["faults"] = json!(gen_env_faults(&mut r, 120));
        }
        let page = 4096u64;
        let max_rand = if tier == Tier::Thorough && r.chance(1, 50) { 32 << 20 } else { 256 << 10 };
        let n = r.range(1, 8);
        let mut regs = vec![];
        for _ in 0..n {
            let len = match r.below(12) {
                0 => 0,
                1 => 1,
                2 => *r.pick(&[2u64, 3, 7, 8, 9, 15, 16, 17]),
                3 => page - 1,
                4 => page,
                5 => page + 1,
                6 => 2 * page - 1,
                7 => 2 * page + 1,
                8 => 2 * page,
                9 if r.chance(1, 3) => *r.pick(&[(2u64 << 20) - 1, 2 << 20, (2 << 20) + 1, (4 << 20) + 4097]),
                9 => r.range(1, 300),
                _ => r.range(1, max_rand),
            };
            let mut spec = if r.chance(1, 2) { json!({"len": len, "fill": r.range(0, 255)}) } else { json!({"len": len, "seed": r.next() >> 8}) };
            spec["clones"] = json!(r.below(4));
            regs.push(spec);
        }
        let crash = variant != "inproc" && r.chance(1, 6);
        let noise = variant != "inproc" && !crash && r.chance(1, 3);
        if noise {
            // transient refusals while another thread creates and drops regions of its own
            let mut f = sim["faults"].as_array().cloned().unwrap_or_default();
            for _ in 0..r.range(1, 2) {
                f.push(json!({"k": "txerr", "pid": 2, "nth": r.below(4), "errno": libc::ENOBUFS}));
            }
            sim["faults"] = json!(f);
        }
        // position of each region inside the message: a seeded permutation of the creation order
        let mut order: Vec<u64> = (0..regs.len() as u64).collect();
        for i in (1..order.len()).rev() {
            order.swap(i, r.below(i as u64 + 1) as usize);
        }
        json!({"sim": sim, "regs": regs, "order": order, "noise": noise, "pad": if noise || r.chance(1, 5) { r.range(5000, 30000) } else { 0 }, "extra": r.chance(1, 3),
               "receiver_proc": variant != "inproc" && r.chance(1, 2), "sender_proc_crash": crash})
    }
    fn run(&self, p: &Value) -> Outcome {
        if p["fork"].is_object() && !cfg!(feature = "inproc") {
            return run_fork(p);
        }
        let mut out = Outcome::default();
        start_sim(p);
        let specs: Vec<Value> = p["regs"].as_array().cloned().unwrap_or_default().into_iter().take(8).collect();
        let mut order: Vec<usize> = p["order"].as_array().map(|a| a.iter().filter_map(|x| x.as_u64()).map(|x| x as usize).collect()).unwrap_or_default();
        {
            // (anything but a permutation of 0..n - e.g. after minimisation - falls back to creation order)
            let mut sorted = order.clone();
            sorted.sort();
            if sorted != (0..specs.len()).collect::<Vec<_>>() {
                order = (0..specs.len()).collect();
            }
        }
        let order_r = order.clone();
        let (tx, rx) = ipc::channel::<M5>().unwrap();
        let (rtx, rrx) = ipc::channel::<u32>().unwrap(); // "receiver finished first pass" / release
        let specs_r = specs.clone();
        let body = move |(rx, release): (IpcReceiver<M5>, IpcReceiver<u32>)| {
            match rx.recv() {
                Ok(m) => {
                    hist::log("recv.ok", m.regs.len() as i64, 0, 0, "");
                    for (k, (i, g)) in m.regs.iter().enumerate() {
                        if order_r.get(k) != Some(&(*i as usize)) {
                            hist::log("order", k as i64, *i as i64, 0, "");
                        }
                        if let Some(sp) = specs_r.get(*i as usize) {
                            check("receiver", *i as usize, g, &expect_bytes(sp));
                        }
                    }
                    // keep the regions, wait until the sender's copies, the message and the channel are gone
                    drop(rx);
                    let _ = release.recv();
                    for (i, g) in m.regs.iter() {
                        if let Some(sp) = specs_r.get(*i as usize) {
                            check("receiver-after-drop", *i as usize, g, &expect_bytes(sp));
                        }
                    }
                    // a clone made on the receiving side
                    for (i, g) in m.regs.iter().take(2) {
                        let c = g.clone();
                        if let Some(sp) = specs_r.get(*i as usize) {
                            check("receiver-clone", *i as usize, &c, &expect_bytes(sp));
                        }
                    }
                },
                Err(e) => {
                    hist::log("recv.err", 0, 0, 0, &format!("{:?}", e));
                },
            }
            hist::log("receiver.done", 0, 0, 0, "");
        };
        if p["receiver_proc"].as_bool().unwrap_or(false) && !cfg!(feature = "inproc") {
            spawn_process("receiver", 5, (rx, rrx), body);
        } else {
            sim::spawn("receiver", None, move || body((rx, rrx)));
        }
        let pad = p["pad"].as_u64().unwrap_or(0).min(1 << 20) as usize;
        let extra = p["extra"].as_bool().unwrap_or(false);
        let crash = p["sender_proc_crash"].as_bool().unwrap_or(false) && !cfg!(feature = "inproc");
        let specs_s = specs.clone();
        let sender_body = move |(tx, rtx): (IpcSender<M5>, IpcSender<u32>)| {
            let mut regs = vec![];
            let mut keep = vec![];
            for (i, sp) in specs_s.iter().enumerate() {
                let want = expect_bytes(sp);
                let g = if sp["fill"].is_u64() { IpcSharedMemory::from_byte(sp["fill"].as_u64().unwrap() as u8, want.len()) } else { IpcSharedMemory::from_bytes(&want) };
                check("creator", i, &g, &want);
                let mut last = g.clone();
                for _ in 0..sp["clones"].as_u64().unwrap_or(0).min(3) {
                    let c = last.clone();
                    check("clone", i, &c, &want);
                    keep.push((i, last));
                    last = c;
                }
                keep.push((i, g));
                regs.push((i as u32, last));
            }
            // arrange the regions in the message as the case says
            let mut slots: Vec<Option<(u32, IpcSharedMemory)>> = regs.into_iter().map(Some).collect();
            let regs: Vec<(u32, IpcSharedMemory)> = order.iter().filter_map(|&i| slots.get_mut(i).and_then(|s| s.take())).collect();
            let (etx, erx) = ipc::channel::<u32>().unwrap();
            std::mem::forget(erx);
            let m = M5 { regs, pad: vec![0x33; pad], extra: if extra { Some(etx) } else { None } };
            hist::log("send.inv", 0, 0, 0, "");
            let r = tx.send(m);
            match r {
                Ok(()) => hist::log("send.ok", 0, 0, 0, ""),
                Err(e) => hist::log("send.err", 0, 0, 0, &e.to_string()),
            };
            if crash {
                // the creator dies right after the send returned: what is in flight must survive
                let _ = rtx.send(1);
                sim::crash_now();
            }
            // creator's copies still read the same after sending
            for (i, g) in keep.iter() {
                check("creator-after-send", *i, g, &expect_bytes(&specs_s[*i]));
            }
            drop(keep);
            drop(tx);
            hist::log("sender.dropped", 0, 0, 0, "");
            let _ = rtx.send(1);
        };
        if crash {
            spawn_process("sender", 3, (tx, rtx), sender_body);
        } else {
            sim::spawn("sender", Some(2), move || sender_body((tx, rtx)));
        }
        if p["noise"].as_bool().unwrap_or(false) {
            sim::spawn("noise", None, move || {
                for i in 0..40u32 {
                    let g = IpcSharedMemory::from_byte(0xEE, 777 + i as usize);
                    sim::yield_now();
                    drop(g);
                }
            });
        }
        let blocked = sim::settle();
        let evs = hist::events();
        for e in evs.iter().filter(|e| e.op == "mismatch") {
            let who = e.s.split(':').next().unwrap_or("?").to_string();
            out.viol(&format!("contents:{}", who), format!("region {} (created with {}): has length {} (expected {}); {}", e.a, if specs[e.a as usize]["fill"].is_u64() { "from_byte" } else { "from_bytes" }, e.b, e.c, e.s));
        }
        for e in evs.iter().filter(|e| e.op == "order") {
            out.viol("order:recv", format!("region in position {} of the message is region {}", e.a, e.b));
        }
        let refused = sim::g().stats.f_enobufs > 0;
        if let Some(e) = evs.iter().find(|e| e.op == "send.err") {
            if !refused {
                out.viol("send-failed:send", e.s.clone());
            }
        }
        if let Some(e) = evs.iter().find(|e| e.op == "recv.err") {
            if !(refused && evs.iter().any(|x| x.op == "send.err")) {
                out.viol("recv-failed:recv", e.s.clone());
            }
        }
        if let Some(e) = evs.iter().find(|e| e.op == "recv.ok") {
            if e.a as usize != specs.len() {
                out.viol("count:recv", format!("{} regions sent, {} received", specs.len(), e.a));
            }
        }
        for b in &blocked {
            if b.label == "receiver" || b.label == "sender" {
                out.viol(&format!("hang:{}", b.label), format!("{} blocked forever in {}", b.label, b.in_call));
            }
        }
        if !evs.iter().any(|e| e.op == "receiver.done") && !blocked.iter().any(|b| b.label == "receiver") {
            out.viol("receiver-died:recv", "the receiver died (panic while receiving or reading a region)".into());
        }
        for pn in hist::panics() {
            out.viol(&hist::panic_sig(pn), format!("panic in [{}]: {} at {}", pn.label, pn.msg, pn.loc));
        }
        out.nontrivial = specs.iter().any(|s| {
            let l = s["len"].as_u64().unwrap_or(0);
            l > 0 && l % 8 != 0
        });
        out.probe("regions", specs.len() as u64);
        out.probe("zero_length_regions", specs.iter().filter(|s| s["len"].as_u64() == Some(0)).count() as u64);
        out.probe("comparisons", evs.iter().filter(|e| e.op == "match").count() as u64);
        out.probe("creator_crashed_after_send", crash as u64);
        out.probe("bytes", specs.iter().map(|s| s["len"].as_u64().unwrap_or(0)).sum::<u64>());
        out.sample = json!({"regions": specs.iter().map(|s| json!({"len": s["len"], "from_byte": s["fill"].is_u64(), "clones": s["clones"]})).collect::<Vec<_>>(), "receiver_proc": p["receiver_proc"], "creator_crash": crash});
        out
    }
}
