//! C06 — a receiver set reports every event of every member exactly once.
use super::util::predict_frag;
use super::*;
use crate::hist;
use ipc_channel::ipc::{self, IpcReceiver, IpcReceiverSet, IpcSelectionResult, IpcSender};

pub struct C06S;
pub static C06: C06S = C06S;

fn member_sender(tx: IpcSender<Vec<u8>>, member: u32, script: Vec<Value>, hold: bool, crash: Option<(u32, u64)>) {
    let mut q = 0u32;
    let last_send = script.iter().rposition(|op| op[0] == "send");
    for (oi, op) in script.into_iter().enumerate() {
        if let (Some((pid, k)), true) = (crash, Some(oi) == last_send) {
            sim::arm_crash(pid, k);
        }
        match op[0].as_str().unwrap_or("") {
            "sleep" => sim::sleep_ns(op[1].as_u64().unwrap_or(0).min(1_000_000) * 1000),
            "send" => {
                let n = op[2].as_u64().unwrap_or(1).clamp(1, 200);
                for _ in 0..n {
                    let p = make_payload(member, 0, q, op[1].as_u64().unwrap_or(16).min(1 << 20) as usize);
                    hist::log("send.inv", member as i64, q as i64, p.len() as i64, "");
                    let r = tx.send(p);
                    hist::log(if r.is_ok() { "send.ok" } else { "send.err" }, member as i64, q as i64, 0, "");
                    q += 1;
                }
            },
            _ => {},
        }
    }
    if let Some((pid, _)) = crash {
        sim::disarm_crash(pid);
        sim::crash_now();
    }
    if hold {
        hist::log("hold", member as i64, 0, 0, "");
        std::mem::forget(tx);
    } else {
        hist::log("drop.inv", member as i64, 0, 0, "");
        drop(tx);
        hist::log("drop.ret", member as i64, 0, 0, "");
    }
}

impl Scenario for C06S {
    fn id(&self) -> &'static str {
        "C06"
    }
    fn variants(&self) -> &'static [&'static str] {
        &["os", "inproc"]
    }
    fn count(&self, tier: Tier, variant: &str) -> u64 {
        match (tier, variant) {
            (Tier::Quick, "os") => 20_000,
            (Tier::Quick, _) => 6000,
            (Tier::Thorough, "os") => 600_000,
            (Tier::Thorough, _) => 200_000,
        }
    }
    fn rule(&self) -> &'static str {
        "case = receiver set of 1..64 members; per-member sender threads with scripts of bursts (1..120 messages of single/multi-packet size) and virtual sleeps, senders dropped or held; members added before traffic, with traffic already queued (selector start delayed), already disconnected, or between select calls; EINTR injected into chosen epoll_wait calls and short event batches; seeded schedule; non-trivial = >=2 members and at least one of {member added with queued traffic, >=10 members ready at once, EINTR fired, multi-packet message}; distinct = distinct (workload, schedule hash)"
    }
    fn gen(&self, seed: u64, idx: u64, _tier: Tier, variant: &str) -> Value {
        let mut r = Rng::stream(seed, idx.wrapping_mul(2654435761).wrapping_add(0xC06));
        let inproc = variant == "inproc";
        let mut sim = sim_json(&mut r, seed ^ idx.wrapping_mul(0x9E37));
        // large bursts need the default buffer (a 4608-byte buffer holds only ~6 small packets)
        let big_burst = r.chance(1, 5);
        if big_burst {
            sim["sndbuf"] = Value::Null;
        } else if r.chance(1, 2) && !inproc {
            sim["sndbuf"] = json!(2304);
        }
        let (first, _) = predict_frag(sim["sndbuf"].as_u64(), inproc);
        let nmem = match r.below(10) {
            0..=3 => r.range(1, 4),
            4..=6 => r.range(5, 14),
            7..=8 => r.range(11, 30),
            _ => r.range(31, 64),
        };
        let mut members = vec![];
        for m in 0..nmem {
            let mut script = vec![];
            for _ in 0..r.range(0, 3) {
                if r.chance(1, 3) {
                    script.push(json!(["sleep", *r.pick(&[0u64, 10, 100, 1000, 5000])]));
                }
                let burst = if big_burst && m == 0 { r.range(60, 120) } else if r.chance(1, 8) { r.range(5, 20) } else { r.range(1, 3) };
                let len = if burst > 20 || nmem > 20 { r.range(16, 64) } else if r.chance(1, 5) { size_classes(&mut r, first) as u64 } else { r.range(16, 200) };
                script.push(json!(["send", len, burst]));
            }
            members.push(json!({
                "script": script,
                "hold": r.chance(1, 6),
                // 0 = added before the selector starts selecting, 1 = added between select calls
                "add": if r.chance(1, 3) { 1 } else { 0 },
                // the sender lives in another sim-process, which may die at the k-th system call of its last burst
                "proc": !inproc && nmem <= 12 && r.chance(1, 4),
                "crash_at": if r.chance(1, 2) { json!(r.below(9)) } else { Value::Null },
            }));
        }
        let mut faults = vec![];
        if !inproc {
            for _ in 0..r.below(4) {
                if r.chance(1, 2) {
                    faults.push(json!({"k": "eintr", "pid": 0, "nth": r.below(12)}));
                } else {
                    faults.push(json!({"k": "short", "pid": 0, "nth": r.below(12), "max": r.range(1, 5)}));
                }
            }
        }
        sim["faults"] = json!(faults);
        json!({"sim": sim, "members": members, "start_delay_us": *r.pick(&[0u64, 0, 50, 2000, 20000]), "ticks": r.range(0, 6)})
    }
    fn run(&self, p: &Value) -> Outcome {
        let mut out = Outcome::default();
        start_sim(p);
        let members = p["members"].as_array().cloned().unwrap_or_default();
        let members: Vec<Value> = members.into_iter().take(64).collect();
        let n = members.len();
        let (first, _) = frag_sizes();
        let mut early: Vec<(u32, IpcReceiver<Vec<u8>>)> = vec![];
        let mut late: Vec<(u32, IpcReceiver<Vec<u8>>)> = vec![];
        let mut multi = false;
        for (i, m) in members.iter().enumerate() {
            let (tx, rx) = ipc::channel::<Vec<u8>>().unwrap();
            let script = m["script"].as_array().cloned().unwrap_or_default();
            if script.iter().any(|op| op[0] == "send" && op[1].as_u64().unwrap_or(0) as usize + 8 > first) {
                multi = true;
            }
            let hold = m["hold"].as_bool().unwrap_or(false);
            if m["proc"].as_bool().unwrap_or(false) && !cfg!(feature = "inproc") && n <= 12 {
                let pid = 10 + i as u32;
                let crash = m["crash_at"].as_u64().map(|k| (pid, k));
                super::util::spawn_process(&format!("sender{}", i), pid, tx, move |tx: IpcSender<Vec<u8>>| member_sender(tx, i as u32 + 1, script, hold, crash));
            } else {
                sim::spawn(&format!("sender{}", i), None, move || member_sender(tx, i as u32 + 1, script, hold, None));
            }
            if m["add"].as_u64().unwrap_or(0) == 1 {
                late.push((i as u32 + 1, rx));
            } else {
                early.push((i as u32 + 1, rx));
            }
        }
        // ticker member: guarantees that select keeps returning while members wait to be added
        let ticks = p["ticks"].as_u64().unwrap_or(0).min(20) + late.len() as u64;
        let (ttx, trx) = ipc::channel::<Vec<u8>>().unwrap();
        sim::spawn("ticker", None, move || {
            for q in 0..ticks {
                sim::sleep_ns(300_000);
                let p = make_payload(0, 0, q as u32, 24);
                hist::log("send.inv", 0, q as i64, 24, "");
                let r = ttx.send(p);
                hist::log(if r.is_ok() { "send.ok" } else { "send.err" }, 0, q as i64, 0, "");
            }
            hist::log("drop.inv", 0, 0, 0, "");
            drop(ttx);
            hist::log("drop.ret", 0, 0, 0, "");
        });
        let delay = p["start_delay_us"].as_u64().unwrap_or(0).min(1_000_000) * 1000;
        sim::spawn("selector", None, move || {
            if delay > 0 {
                sim::sleep_ns(delay);
            }
            let mut set = IpcReceiverSet::new().unwrap();
            let mut open = 0;
            let tid = set.add(trx).unwrap();
            hist::log("add", 0, tid as i64, 0, "");
            open += 1;
            for (m, rx) in early {
                let id = set.add(rx).unwrap();
                hist::log("add", m as i64, id as i64, 0, "");
                open += 1;
            }
            let mut late = late;
            late.reverse();
            while open > 0 {
                if let Some((m, rx)) = late.pop() {
                    let id = set.add(rx).unwrap();
                    hist::log("add", m as i64, id as i64, 0, "");
                    open += 1;
                }
                hist::log("select.inv", 0, 0, 0, "");
                let rs = match set.select() {
                    Ok(r) => r,
                    Err(e) => {
                        hist::log("select.err", 0, 0, 0, &e.to_string());
                        return;
                    },
                };
                hist::log("select.ret", rs.len() as i64, 0, 0, "");
                for r in rs {
                    match r {
                        IpcSelectionResult::MessageReceived(id, msg) => match msg.to::<Vec<u8>>() {
                            Ok(v) => match check_payload(&v) {
                                Ok((c, _s, q)) => {
                                    hist::log("ev.msg", id as i64, c as i64, q as i64, "");
                                },
                                Err(e) => {
                                    hist::log("ev.bad", id as i64, 0, 0, &e);
                                },
                            },
                            Err(e) => {
                                hist::log("ev.bad", id as i64, 0, 0, &format!("decode: {}", e));
                            },
                        },
                        IpcSelectionResult::ChannelClosed(id) => {
                            hist::log("ev.closed", id as i64, 0, 0, "");
                            open -= 1;
                        },
                    }
                }
            }
            // members that were never added simply stay in `late` (dropped here)
            hist::log("selector.done", 0, 0, 0, "");
            std::mem::forget(late);
        });
        let blocked = sim::settle();

        // ------------------------------------------------------------ oracle
        let evs = hist::events();
        let mut id_of: std::collections::BTreeMap<i64, i64> = Default::default(); // member -> id
        let mut member_of: std::collections::BTreeMap<i64, i64> = Default::default(); // id -> member (currently in set)
        let mut next_seq: std::collections::BTreeMap<i64, i64> = Default::default();
        let mut closed: std::collections::BTreeSet<i64> = Default::default();
        let mut drop_inv: std::collections::BTreeMap<i64, u64> = Default::default();
        for e in evs.iter().filter(|e| e.op == "drop.inv") {
            drop_inv.insert(e.a, e.seq);
        }
        // a sender whose sim-process died: gone from the crash on, certainly gone once reaped
        let mut reaped: std::collections::BTreeSet<i64> = Default::default();
        for e in evs.iter().filter(|e| e.op == "crash" && e.a >= 10) {
            drop_inv.insert(e.a - 10 + 1, e.seq);
        }
        for e in evs.iter().filter(|e| e.op == "crash.reaped" && e.a >= 10) {
            reaped.insert(e.a - 10 + 1);
        }
        let sent_ok = |m: i64| -> Vec<i64> { evs.iter().filter(|e| e.op == "send.ok" && e.a == m).map(|e| e.b).collect() };
        let mut max_batch = 0;
        let mut added_with_traffic = 0u64;
        for e in evs {
            match e.op {
                "add" => {
                    if member_of.contains_key(&e.b) {
                        out.viol("duplicate-id:add", format!("add returned id {} for member {} while member {} with the same id is still in the set", e.b, e.a, member_of[&e.b]));
                    }
                    id_of.insert(e.a, e.b);
                    member_of.insert(e.b, e.a);
                    next_seq.insert(e.a, 0);
                    if evs.iter().any(|s| s.op == "send.ok" && s.a == e.a && s.seq < e.seq) {
                        added_with_traffic += 1;
                    }
                },
                "select.ret" => max_batch = max_batch.max(e.a),
                "ev.msg" => {
                    let m = match member_of.get(&e.a) {
                        Some(m) => *m,
                        None => {
                            out.viol("unknown-id:select", format!("select reported a message with id {} that no current member has", e.a));
                            continue;
                        },
                    };
                    if e.b != m {
                        out.viol("wrong-id:select", format!("message of member {} was reported with the id of member {} ({})", e.b, m, e.a));
                        continue;
                    }
                    let want = next_seq[&m];
                    if e.c < want {
                        out.viol("duplicate:select", format!("member {} message {} reported again (next expected {})", m, e.c, want));
                    } else if e.c > want {
                        out.viol("order-or-lost:select", format!("member {} message {} reported while message {} has not been reported", m, e.c, want));
                        next_seq.insert(m, e.c + 1);
                    } else {
                        next_seq.insert(m, want + 1);
                    }
                },
                "ev.bad" => out.viol("torn:select", format!("id {}: {}", e.a, e.s)),
                "ev.closed" => {
                    let m = match member_of.get(&e.a) {
                        Some(m) => *m,
                        None => {
                            out.viol("unknown-id:select", format!("select reported closure of id {} that no current member has", e.a));
                            continue;
                        },
                    };
                    if closed.contains(&m) {
                        out.viol("duplicate-closed:select", format!("member {} reported closed twice", m));
                    }
                    closed.insert(m);
                    member_of.remove(&e.a);
                    match drop_inv.get(&m) {
                        Some(d) if *d < e.seq => {},
                        _ => out.viol("false-closed:select", format!("member {} reported closed at #{} while its sender certainly still existed", m, e.seq)),
                    }
                    let ok = sent_ok(m);
                    if (next_seq[&m] as usize) < ok.len() {
                        out.viol("closed-before-messages:select", format!("member {} reported closed after {} of {} successfully sent messages", m, next_seq[&m], ok.len()));
                    }
                },
                "select.err" => out.viol("select-error:select", format!("select failed: {} (an interrupted wait must be retried)", e.s)),
                _ => {},
            }
        }
        // selector blocked at quiescence: nothing may be pending for any member in the set
        let selector_blocked = blocked.iter().any(|b| b.label == "selector");
        let done = evs.iter().any(|e| e.op == "selector.done" || e.op == "select.err");
        if selector_blocked || done {
            for (m, _id) in id_of.iter() {
                let ok = sent_ok(*m);
                let sender_blocked = blocked.iter().any(|b| b.label == format!("sender{}", m - 1));
                if (next_seq[m] as usize) < ok.len() {
                    out.viol("lost-wakeup:select", format!("selector {} although member {} has {} successfully sent messages of which only {} were reported", if done { "finished" } else { "blocked in select for ever" }, m, ok.len(), next_seq[m]));
                } else if drop_inv.contains_key(m) && (evs.iter().any(|e| e.op == "drop.ret" && e.a == *m) || reaped.contains(m)) && !closed.contains(m) && !sender_blocked {
                    out.viol("lost-closure:select", format!("selector {} although member {}'s sender is gone and its closure was never reported", if done { "finished" } else { "blocked in select for ever" }, m));
                }
            }
        } else if !evs.iter().any(|e| e.op == "select.err") {
            out.viol("selector-died:select", "the selecting thread died (panic inside select)".into());
        }
        for b in &blocked {
            if b.label.starts_with("sender") || b.label == "ticker" {
                // a sender may block only while its member has not been added / is not being drained
                let m: i64 = if b.label == "ticker" { 0 } else { b.label[6..].parse::<i64>().unwrap_or(0) + 1 };
                if id_of.contains_key(&m) && !closed.contains(&m) && selector_blocked {
                    out.viol("hang:send", format!("{} blocked forever in {} although its receiver is in a set whose owner is waiting in select", b.label, b.in_call));
                }
            }
        }
        for pn in hist::panics() {
            out.viol(&hist::panic_sig(pn), format!("panic in [{}]: {} at {}", pn.label, pn.msg, pn.loc));
        }
        let st = &sim::g().stats;
        out.nontrivial = n >= 2 && (added_with_traffic > 0 || max_batch >= 10 || st.f_eintr > 0 || multi);
        out.probe("members_added_with_queued_traffic", added_with_traffic);
        out.probe("batch_ge_10", (max_batch >= 10) as u64);
        out.probe("closed_events", closed.len() as u64);
        out.probe("messages_reported", next_seq.values().sum::<i64>() as u64);
        out.probe("members_ge_11", (n >= 11) as u64);
        out.probe("burst_gt_64_queued", members.iter().any(|m| m["script"].as_array().map(|s| s.iter().any(|op| op[2].as_u64().unwrap_or(0) > 64)).unwrap_or(false)) as u64);
        out.sample = json!({"members": n, "max_batch": max_batch, "messages": next_seq.values().sum::<i64>(), "closed": closed.len(), "eintr": st.f_eintr, "short_batches": st.f_short});
        out
    }
}
