//! C07 — router: each routed message reaches its handler once, in order; then it is freed.
use super::util::predict_frag;
use super::*;
use crate::hist;
use ipc_channel::ipc::{self, IpcReceiver, IpcSender};
use ipc_channel::router::{RouterProxy, ROUTER};

pub struct C07S;
pub static C07: C07S = C07S;

struct Guard(u32);
impl Drop for Guard {
    fn drop(&mut self) {
        hist::log("handler.dropped", self.0 as i64, 0, 0, "");
    }
}

fn route_sender(tx: IpcSender<Vec<u8>>, route: u32, from: u32, sizes: Vec<u64>, hold: bool, gap_us: u64) {
    route_sender_c(tx, route, from, sizes, hold, gap_us, None)
}
/// `crash`: (sim-process id, k) - the sending process dies before its k-th system call of the last send
fn route_sender_c(tx: IpcSender<Vec<u8>>, route: u32, from: u32, sizes: Vec<u64>, hold: bool, gap_us: u64, crash: Option<(u32, u64)>) {
    let mut q = from;
    let n = sizes.len();
    for (i, len) in sizes.into_iter().enumerate() {
        if let (Some((pid, k)), true) = (crash, i + 1 == n) {
            sim::arm_crash(pid, k);
        }
        if gap_us > 0 {
            sim::sleep_ns(gap_us * 1000);
        }
        let p = make_payload(route, 0, q, len as usize);
        hist::log("send.inv", route as i64, q as i64, p.len() as i64, "");
        let r = tx.send(p);
        hist::log(if r.is_ok() { "send.ok" } else { "send.err" }, route as i64, q as i64, 0, "");
        q += 1;
    }
    if let Some((pid, _)) = crash {
        sim::disarm_crash(pid);
        sim::crash_now();
    }
    if hold {
        hist::log("hold", route as i64, 0, 0, "");
        std::mem::forget(tx);
    } else {
        hist::log("drop.inv", route as i64, 0, 0, "");
        drop(tx);
        hist::log("drop.ret", route as i64, 0, 0, "");
    }
}
fn note(route: u32, v: &[u8]) {
    match check_payload(v) {
        Ok((c, _s, q)) => hist::log("handled", route as i64, c as i64, q as i64, ""),
        Err(e) => hist::log("handled.bad", route as i64, 0, 0, &e),
    };
}

impl Scenario for C07S {
    fn id(&self) -> &'static str {
        "C07"
    }
    fn variants(&self) -> &'static [&'static str] {
        &["os", "inproc", "hook"]
    }
    fn count(&self, tier: Tier, variant: &str) -> u64 {
        match (tier, variant) {
            (Tier::Quick, "os") => 20_000,
            (Tier::Quick, "hook") => 10_000,
            (Tier::Thorough, "hook") => 300_000,
            (Tier::Quick, _) => 6000,
            (Tier::Thorough, "os") => 600_000,
            (Tier::Thorough, _) => 200_000,
        }
    }
    fn rule(&self) -> &'static str {
        "case = 1..32 routes registered from 1..8 threads on a fresh RouterProxy (or the global ROUTER): callback routes with a drop guard, routes to a new crossbeam receiver, routes to a caller-supplied bounded crossbeam sender with a slow consumer; 0..50 messages per route queued before registration and more in flight afterwards (one case in ten: a backlog of 100..272 tiny messages on one route whose senders are all gone before it is registered), single/multi-packet; senders dropped or held, some in other sim-processes that die at the k-th system call of their last send; EINTR / short batches in the router's wait; seeded schedule; non-trivial = >=2 routes and (messages queued before registration or >=2 registering threads); distinct = distinct (workload, schedule hash)"
    }
    fn gen(&self, seed: u64, idx: u64, _tier: Tier, variant: &str) -> Value {
        let mut r = Rng::stream(seed, idx.wrapping_mul(2654435761).wrapping_add(0xC07));
        let inproc = variant == "inproc";
        let mut sim = sim_json(&mut r, seed ^ idx.wrapping_mul(0x9E37));
        let many_pre = r.chance(1, 4);
        if many_pre {
            sim["sndbuf"] = Value::Null;
        } else if r.chance(1, 2) && !inproc {
            sim["sndbuf"] = json!(2304);
        }
        let (first, _) = predict_frag(sim["sndbuf"].as_u64(), inproc);
        let nroutes = match r.below(10) {
            0..=4 => r.range(1, 4),
            5..=7 => r.range(5, 12),
            _ => r.range(13, 32),
        };
        let nthreads = r.range(1, 8.min(nroutes));
        let mut routes = vec![];
        for _ in 0..nroutes {
            let npre = if many_pre && r.chance(1, 3) { r.range(10, 50) } else if r.chance(1, 2) { r.range(0, 4) } else { 0 };
            let npost = r.range(0, 5);
            let mut sz = |r: &mut Rng| if r.chance(1, 6) && !many_pre { size_classes(r, first) as u64 } else { r.range(16, 120) };
            let pre: Vec<u64> = (0..npre).map(|_| sz(&mut r)).collect();
            let post: Vec<u64> = (0..npost).map(|_| sz(&mut r)).collect();
            routes.push(json!({
                "kind": *r.pick(&["callback", "callback", "crossbeam", "bounded"]),
                "cap": r.range(1, 4),
                "consumer_gap_us": *r.pick(&[0u64, 0, 200, 3000]),
                "pre": pre, "post": post,
                "hold": r.chance(1, 6),
                "gap_us": *r.pick(&[0u64, 0, 0, 100, 1500]),
                "thread": r.below(nthreads),
                // drop the only sender before the route is registered (already disconnected when added)
                "drop_before_add": r.chance(1, 8),
                // the later sender lives in another sim-process, which may die at the k-th call of its last send
                "proc": !inproc && nroutes <= 12 && r.chance(1, 5),
                "crash_at": if r.chance(1, 2) { json!(r.below(9)) } else { Value::Null },
            }));
        }
        let mut faults = vec![];
        if !inproc {
            for _ in 0..r.below(4) {
                if r.chance(1, 2) {
                    faults.push(json!({"k": "eintr", "pid": 0, "nth": r.below(16)}));
                } else {
                    faults.push(json!({"k": "short", "pid": 0, "nth": r.below(16), "max": r.range(1, 4)}));
                }
            }
        }
        sim["faults"] = json!(faults);
        let global = r.chance(1, 8);
        if r.chance(1, 10) {
            // backlog route: hundreds of tiny messages queued and every sender gone before the route
            // exists - one wake-up of the router has to drain them all and then see the closure
            let n = r.range(100, 272);
            let k = r.below(nroutes) as usize;
            routes[k]["pre"] = json!((0..n).map(|_| r.range(16, 40)).collect::<Vec<u64>>());
            routes[k]["post"] = json!([]);
            routes[k]["drop_before_add"] = json!(true);
            routes[k]["backlog"] = json!(true);
            routes[k]["hold"] = json!(false);
            sim["sndbuf"] = Value::Null;
        }
        json!({"sim": sim, "routes": routes, "threads": nthreads, "global": global})
    }
    fn run(&self, p: &Value) -> Outcome {
        let mut out = Outcome::default();
        start_sim(p);
        let routes: Vec<Value> = p["routes"].as_array().cloned().unwrap_or_default().into_iter().take(32).collect();
        let nthreads = p["threads"].as_u64().unwrap_or(1).clamp(1, 8) as usize;
        let router: &'static RouterProxy = if p["global"].as_bool().unwrap_or(false) { &ROUTER } else { Box::leak(Box::new(RouterProxy::new())) };
        // per registering thread: the routes it registers, in order
        let mut plans: Vec<Vec<(u32, Value, IpcReceiver<Vec<u8>>, IpcSender<Vec<u8>>)>> = (0..nthreads).map(|_| vec![]).collect();
        let mut any_pre = false;
        for (i, rt) in routes.iter().enumerate() {
            let (tx, rx) = ipc::channel::<Vec<u8>>().unwrap();
            if rt["pre"].as_array().map(|a| !a.is_empty()).unwrap_or(false) {
                any_pre = true;
            }
            plans[rt["thread"].as_u64().unwrap_or(0) as usize % nthreads].push((i as u32 + 1, rt.clone(), rx, tx));
        }
        for (t, plan) in plans.into_iter().enumerate() {
            sim::spawn(&format!("registrar{}", t), None, move || {
                for (route, rt, rx, tx) in plan {
                    let sizes = |k: &str| -> Vec<u64> { rt[k].as_array().map(|a| a.iter().filter_map(|x| x.as_u64()).map(|x| x.min(1 << 20)).collect()).unwrap_or_default() };
                    let pre = sizes("pre");
                    let post = sizes("post");
                    let npre = pre.len() as u32;
                    let hold = rt["hold"].as_bool().unwrap_or(false);
                    let gap = rt["gap_us"].as_u64().unwrap_or(0).min(100_000);
                    let drop_before = rt["drop_before_add"].as_bool().unwrap_or(false);
                    // messages queued before registration are sent by a helper thread (a large backlog
                    // may block until the router drains it)
                    let tx2 = tx.clone();
                    let mut tx = Some(tx);
                    if drop_before && rt["backlog"].as_bool().unwrap_or(false) {
                        // the whole backlog is sent by a helper (it would block for good if the kernel
                        // took less than expected); the route is added once the helper is done or stuck
                        drop(tx2);
                        let all: Vec<u64> = pre.iter().map(|l| (*l).min(60)).take(300).collect();
                        let txb = tx.take().unwrap();
                        sim::spawn(&format!("presender{}", route), None, move || {
                            route_sender(txb, route, 0, all, false, 0);
                        });
                        sim::sleep_ns(50_000_000);
                    } else if drop_before {
                        // everything is sent and the sender is gone before the route exists
                        // (nobody reads yet: only what fits the socket buffer without a reader)
                        let mut all = pre.clone();
                        all.extend(post.iter());
                        let all: Vec<u64> = all.into_iter().map(|l| l.min(200)).take(4).collect();
                        drop(tx2);
                        route_sender(tx.take().unwrap(), route, 0, all, false, 0);
                    } else {
                        let small = pre.iter().all(|l| *l <= 200);
                        let h = sim::spawn(&format!("presender{}", route), None, move || {
                            route_sender(tx2, route, 0, pre, false, 0);
                        });
                        if small && npre <= 4 {
                            let _ = h.join();
                        }
                    }
                    hist::log("route.inv", route as i64, 0, 0, rt["kind"].as_str().unwrap_or(""));
                    match rt["kind"].as_str().unwrap_or("callback") {
                        "crossbeam" => {
                            let crx = router.route_ipc_receiver_to_new_crossbeam_receiver(rx);
                            let cgap = rt["consumer_gap_us"].as_u64().unwrap_or(0).min(100_000);
                            sim::spawn(&format!("consumer{}", route), None, move || {
                                while let Ok(v) = crx.recv() {
                                    note(route, &v);
                                    if cgap > 0 {
                                        sim::sleep_ns(cgap * 1000);
                                    }
                                }
                                hist::log("handler.dropped", route as i64, 0, 0, "crossbeam disconnected");
                            });
                        },
                        "bounded" => {
                            let (ctx, crx) = crossbeam_channel::bounded::<Vec<u8>>(rt["cap"].as_u64().unwrap_or(1).clamp(1, 16) as usize);
                            router.route_ipc_receiver_to_crossbeam_sender(rx, ctx);
                            let cgap = rt["consumer_gap_us"].as_u64().unwrap_or(0).min(100_000);
                            sim::spawn(&format!("consumer{}", route), None, move || {
                                while let Ok(v) = crx.recv() {
                                    note(route, &v);
                                    if cgap > 0 {
                                        sim::sleep_ns(cgap * 1000);
                                    }
                                }
                                hist::log("handler.dropped", route as i64, 0, 0, "crossbeam disconnected");
                            });
                        },
                        _ => {
                            let g = Guard(route);
                            router.add_route(
                                rx.to_opaque(),
                                Box::new(move |m| {
                                    let _g = &g;
                                    match m.to::<Vec<u8>>() {
                                        Ok(v) => note(route, &v),
                                        Err(e) => {
                                            hist::log("handled.bad", route as i64, 0, 0, &format!("decode: {}", e));
                                        },
                                    }
                                }),
                            );
                        },
                    }
                    hist::log("route.ret", route as i64, 0, 0, "");
                    if let Some(tx) = tx.take() {
                        if rt["proc"].as_bool().unwrap_or(false) && !cfg!(feature = "inproc") && route <= 12 {
                            let pid = 8 + route;
                            let crash = rt["crash_at"].as_u64().map(|k| (pid, k));
                            super::util::spawn_process(&format!("sender{}", route), pid, tx, move |tx: IpcSender<Vec<u8>>| route_sender_c(tx, route, 1000, post, hold, gap, crash));
                        } else {
                            sim::spawn(&format!("sender{}", route), None, move || route_sender(tx, route, 1000, post, hold, gap));
                        }
                    }
                }
            });
        }
        let blocked = sim::settle();

        // ------------------------------------------------------------ oracle
        // a sender whose sim-process died: gone from the crash on, certainly gone once reaped
        let mut merged: Vec<hist::Ev> = hist::events().to_vec();
        for e in hist::events() {
            if e.a >= 8 && (e.op == "crash" || e.op == "crash.reaped") {
                let mut d = e.clone();
                d.op = if e.op == "crash" { "drop.inv" } else { "drop.ret" };
                d.a = e.a - 8;
                merged.push(d);
            }
        }
        merged.sort_by_key(|e| e.seq);
        let evs = &merged[..];
        let nroutes = routes.len();
        for route in 1..=nroutes as i64 {
            let ok: Vec<i64> = evs.iter().filter(|e| e.op == "send.ok" && e.a == route).map(|e| e.b).collect();
            // expected order: the pre-registration messages (0..), then the later ones (1000..)
            let handled: Vec<&hist::Ev> = evs.iter().filter(|e| e.op == "handled" && e.a == route).collect();
            let mut seen: Vec<i64> = vec![];
            for h in &handled {
                if h.b != route {
                    out.viol("misrouted:handler", format!("the handler of route {} was given a message of route {}", route, h.b));
                    continue;
                }
                if seen.contains(&h.c) {
                    out.viol("duplicate:handler", format!("route {}: message {} handled twice", route, h.c));
                }
                if let Some(l) = seen.last() {
                    // both sender phases are sequential; pre (0..) and post (1000..) run concurrently,
                    // so only the order inside each phase is defined
                    if (h.c < 1000) == (*l < 1000) && h.c < *l {
                        out.viol("order:handler", format!("route {}: message {} handled after message {}", route, h.c, l));
                    }
                    let last_same = seen.iter().rev().find(|s| (**s < 1000) == (h.c < 1000));
                    if let Some(ls) = last_same {
                        if h.c < *ls {
                            out.viol("order:handler", format!("route {}: message {} handled after message {}", route, h.c, ls));
                        }
                    }
                }
                seen.push(h.c);
            }
            // real-time order across the two sender phases: a message whose send had returned before
            // another one's send began went into the channel first and must be handled first
            {
                let span = |q: i64| -> (u64, u64) {
                    let inv = evs.iter().find(|e| e.op == "send.inv" && e.a == route && e.b == q).map(|e| e.seq).unwrap_or(0);
                    let ret = evs.iter().find(|e| e.op == "send.ok" && e.a == route && e.b == q).map(|e| e.seq).unwrap_or(u64::MAX);
                    (inv, ret)
                };
                let mut latest_inv: Option<(u64, i64)> = None;
                for h in handled.iter().filter(|h| h.b == route) {
                    let (inv, ret) = span(h.c);
                    if let Some((li, lq)) = latest_inv {
                        if ret < li {
                            out.viol("order:handler", format!("route {}: message {} (send returned at #{}) was handled after message {} whose send began only at #{}", route, h.c, ret, lq, li));
                            break;
                        }
                    }
                    if latest_inv.map(|(li, _)| inv > li).unwrap_or(true) {
                        latest_inv = Some((inv, h.c));
                    }
                }
            }
            for e in evs.iter().filter(|e| e.op == "handled.bad" && e.a == route) {
                out.viol("torn:handler", format!("route {}: {}", route, e.s));
            }
            let dropped: Vec<&hist::Ev> = evs.iter().filter(|e| e.op == "handler.dropped" && e.a == route).collect();
            if dropped.len() > 1 {
                out.viol("double-drop:handler", format!("the handler of route {} was dropped {} times", route, dropped.len()));
            }
            let registered = evs.iter().any(|e| e.op == "route.ret" && e.a == route);
            let senders_gone = !evs.iter().any(|e| e.op == "hold" && e.a == route)
                && evs.iter().filter(|e| e.op == "drop.ret" && e.a == route).count() >= if routes[route as usize - 1]["drop_before_add"].as_bool().unwrap_or(false) { 1 } else { 2 };
            if let Some(d) = dropped.first() {
                if let Some(late) = handled.iter().find(|h| h.seq > d.seq) {
                    out.viol("use-after-drop:handler", format!("route {}: message {} handled after the handler was dropped", route, late.c));
                }
                let last_drop_inv = evs.iter().filter(|e| e.op == "drop.inv" && e.a == route).map(|e| e.seq).max();
                let all_invoked = evs.iter().filter(|e| e.op == "drop.inv" && e.a == route).count() >= if routes[route as usize - 1]["drop_before_add"].as_bool().unwrap_or(false) { 1 } else { 2 };
                if !all_invoked || last_drop_inv.map(|l| l > d.seq).unwrap_or(true) || evs.iter().any(|e| e.op == "hold" && e.a == route) {
                    out.viol("premature-drop:handler", format!("the handler of route {} was dropped at #{} while a sender of its channel certainly still existed", route, d.seq));
                }
            }
            if registered {
                let missing: Vec<&i64> = ok.iter().filter(|q| !seen.contains(q)).collect();
                let consumer_blocked = blocked.iter().any(|b| b.label == format!("consumer{}", route));
                if !missing.is_empty() {
                    out.viol("lost:handler", format!("route {}: {} successfully sent messages were never handled (first: {}){}", route, missing.len(), missing[0], if consumer_blocked { "; its consumer waits for ever" } else { "" }));
                } else if senders_gone && dropped.is_empty() {
                    out.viol("never-dropped:handler", format!("route {}: every sender is gone and all messages were handled, but the handler was never dropped", route));
                }
            }
        }
        for b in &blocked {
            if b.label.starts_with("registrar") {
                out.viol("hang:add_route", format!("{} blocked forever in {}", b.label, b.in_call));
            }
            if b.label.starts_with("sender") || b.label.starts_with("presender") {
                let r: i64 = b.label.trim_start_matches("presender").trim_start_matches("sender").parse().unwrap_or(0);
                if evs.iter().any(|e| e.op == "route.ret" && e.a == r) {
                    out.viol("hang:send", format!("{} blocked forever in {} although its channel is routed", b.label, b.in_call));
                }
            }
        }
        for pn in hist::panics() {
            out.viol(&hist::panic_sig(pn), format!("panic in [{}]: {} at {}", pn.label, pn.msg, pn.loc));
        }
        out.nontrivial = nroutes >= 2 && (any_pre || nthreads >= 2);
        out.probe("routes", nroutes as u64);
        out.probe("handled", evs.iter().filter(|e| e.op == "handled").count() as u64);
        out.probe("handlers_dropped", evs.iter().filter(|e| e.op == "handler.dropped").count() as u64);
        out.probe("registered_already_disconnected", routes.iter().filter(|r| r["drop_before_add"].as_bool().unwrap_or(false)).count() as u64);
        for (i, rt) in routes.iter().enumerate() {
            if rt["backlog"].as_bool().unwrap_or(false) {
                let route = i as i64 + 1;
                let at = evs.iter().find(|e| e.op == "route.inv" && e.a == route).map(|e| e.seq).unwrap_or(u64::MAX);
                let q = evs.iter().filter(|e| e.op == "send.ok" && e.a == route && e.seq < at).count() as u64;
                let gone = evs.iter().any(|e| e.op == "drop.ret" && e.a == route && e.seq < at);
                out.probe("backlog_over_128_all_senders_gone_before_route", (q > 128 && gone) as u64);
                out.probe("backlog_over_256_all_senders_gone_before_route", (q > 256 && gone) as u64);
            }
        }
        out.probe("backlog_routes", routes.iter().filter(|r| r["backlog"].as_bool().unwrap_or(false)).count() as u64);
        out.probe("global_router", p["global"].as_bool().unwrap_or(false) as u64);
        out.sample = json!({"routes": nroutes, "threads": nthreads, "handled": evs.iter().filter(|e| e.op == "handled").count(), "dropped": evs.iter().filter(|e| e.op == "handler.dropped").count()});
        out
    }
}
