//! C08 — one-shot server bootstrap connects two processes and leaves nothing behind.
use super::util::predict_frag;
use super::*;
use crate::hist;
use ipc_channel::ipc::{self, IpcError, IpcOneShotServer, IpcSender};
use serde::{Deserialize, Serialize};

pub struct C08S;
pub static C08: C08S = C08S;

#[derive(Serialize, Deserialize)]
pub struct M8 {
    pub data: Vec<u8>,
    pub att: Option<IpcSender<u32>>,
}

fn client(name: String, srv: u32, msgs: Vec<(u64, bool)>, delay_us: u64, crash: bool) {
    sim::sleep_ns(delay_us * 1000);
    hist::log("connect.inv", srv as i64, 0, 0, "");
    let tx: IpcSender<M8> = match IpcSender::connect(name) {
        Ok(t) => t,
        Err(e) => {
            hist::log("connect.err", srv as i64, 0, 0, &e.to_string());
            return;
        },
    };
    hist::log("connect.ok", srv as i64, 0, 0, "");
    let (side, side_rx) = ipc::channel::<u32>().unwrap();
    for (q, (len, att)) in msgs.iter().enumerate() {
        let data = make_payload(srv, 0, q as u32, *len as usize);
        hist::log("send.inv", srv as i64, q as i64, 0, "");
        let r = tx.send(M8 { data, att: if *att { Some(side.clone()) } else { None } });
        match r {
            Ok(()) => hist::log("send.ok", srv as i64, q as i64, 0, ""),
            Err(e) => hist::log("send.err", srv as i64, q as i64, 0, &e.to_string()),
        };
    }
    if crash {
        sim::crash_now();
    }
    drop(side);
    drop(side_rx);
    drop(tx);
    hist::log("client.exit", srv as i64, 0, 0, "");
}

impl Scenario for C08S {
    fn id(&self) -> &'static str {
        "C08"
    }
    fn variants(&self) -> &'static [&'static str] {
        &["os", "memfd", "inproc"]
    }
    fn count(&self, tier: Tier, variant: &str) -> u64 {
        match (tier, variant) {
            (Tier::Quick, "os") => 25_000,
            (Tier::Quick, _) => 6000,
            (Tier::Thorough, "os") => 1_000_000,
            (Tier::Thorough, _) => 250_000,
        }
    }
    fn rule(&self) -> &'static str {
        "case = 1..200 one-shot servers alive at once, each either used (a client thread or sim-process connects after a virtual delay, sends 1..20 messages of mixed sizes, some with an attached endpoint, then exits cleanly or crashes after its last send; accept is called after its own delay and the returned receiver is drained) or dropped unused; program closes stdin / spawns an unrelated child at random points; non-trivial = at least one used server whose client sent >=2 messages; distinct = distinct (case, schedule hash)"
    }
    fn gen(&self, seed: u64, idx: u64, _tier: Tier, variant: &str) -> Value {
        let mut r = Rng::stream(seed, idx.wrapping_mul(2654435761).wrapping_add(0xC08));
        let inproc = variant == "inproc";
        let mut sim = sim_json(&mut r, seed ^ idx.wrapping_mul(0x9E37));
        if r.chance(1, 2) && !inproc {
            sim["sndbuf"] = json!(2304);
        }
        if !inproc {
            sim["faults"] = json!(gen_env_faults(&mut r, 150));
        }
        let (first, _) = predict_frag(sim["sndbuf"].as_u64(), inproc);
        let n = match r.below(20) {
            0 => r.range(50, 200),
            1..=4 => r.range(3, 12),
            _ => r.range(1, 2),
        };
        let mut servers = vec![];
        for i in 0..n {
            let used = if n > 12 { i < 3 } else { r.chance(4, 5) };
            if !used {
                servers.push(json!({"use": false}));
                continue;
            }
            // (0 messages: the client connects and leaves - or dies - without saying anything)
            let m = if r.chance(1, 6) { r.range(8, 20) } else if r.chance(1, 8) { 0 } else { r.range(1, 5) };
            let msgs: Vec<Value> = (0..m).map(|_| json!([if r.chance(1, 5) { size_classes(&mut r, first) as u64 } else { r.range(16, 200) }, r.chance(1, 4)])).collect();
            servers.push(json!({"use": true, "msgs": msgs, "client_delay_us": *r.pick(&[0u64, 0, 100, 2000]), "accept_delay_us": *r.pick(&[0u64, 0, 100, 2000, 20000]),
                "client_proc": !inproc && r.chance(1, 2), "crash": !inproc && r.chance(1, 5), "drain": *r.pick(&["recv", "recv", "try", "timeout"])}));
        }
        json!({"sim": sim, "servers": servers, "drop_at_fd_limit": !inproc && r.chance(1, 3)})
    }
    fn post(&self, body: &Value) -> Option<Violation> {
        let l = body["tmp_leftovers"].as_array().map(|a| a.len()).unwrap_or(0);
        if l > 0 {
            return Some(Violation { sig: "tmp-left-behind:server".into(), detail: format!("after every server was accepted or dropped, {} entries remain in the temporary directory: {:?}", l, body["tmp_leftovers"]) });
        }
        None
    }
    fn run(&self, p: &Value) -> Outcome {
        let mut out = Outcome::default();
        start_sim(p);
        let specs: Vec<Value> = p["servers"].as_array().cloned().unwrap_or_default().into_iter().take(200).collect();
        let mut names: Vec<String> = vec![];
        let mut unused = vec![];
        let mut nontrivial = false;
        for (i, s) in specs.iter().enumerate() {
            let srv = i as u32 + 1;
            let (server, name) = match IpcOneShotServer::<M8>::new() {
                Ok(x) => x,
                Err(e) => {
                    out.viol("server-create-failed:new", e.to_string());
                    continue;
                },
            };
            hist::log("server.new", srv as i64, 0, 0, &name);
            names.push(name.clone());
            if !s["use"].as_bool().unwrap_or(false) {
                unused.push((srv, server, name));
                continue;
            }
            let msgs: Vec<(u64, bool)> = s["msgs"].as_array().map(|a| a.iter().map(|m| (m[0].as_u64().unwrap_or(16).min(1 << 20), m[1].as_bool().unwrap_or(false))).collect()).unwrap_or_default();
            let msgs: Vec<(u64, bool)> = msgs.into_iter().take(20).collect();
            if msgs.len() >= 2 {
                nontrivial = true;
            }
            let cd = s["client_delay_us"].as_u64().unwrap_or(0).min(1_000_000);
            let ad = s["accept_delay_us"].as_u64().unwrap_or(0).min(1_000_000);
            let crash = s["crash"].as_bool().unwrap_or(false) && s["client_proc"].as_bool().unwrap_or(false);
            let n2 = name.clone();
            let drain = s["drain"].as_str().unwrap_or("recv").to_string();
            if s["client_proc"].as_bool().unwrap_or(false) && !cfg!(feature = "inproc") {
                // a client in another sim-process knows only the name (a string), as a spawned process would
                sim::spawn(&format!("client{}", srv), Some(10 + srv % 20), move || client(n2, srv, msgs, cd, crash));
            } else {
                sim::spawn(&format!("client{}", srv), None, move || client(n2, srv, msgs, cd, false));
            }
            sim::spawn(&format!("acceptor{}", srv), None, move || {
                sim::sleep_ns(ad * 1000);
                hist::log("accept.inv", srv as i64, 0, 0, "");
                match server.accept() {
                    Ok((rx, first)) => {
                        let tag = check_payload(&first.data);
                        hist::log("accept.ret", srv as i64, tag.as_ref().map(|t| t.2 as i64).unwrap_or(-1), tag.as_ref().map(|t| t.0 as i64).unwrap_or(-1), if std::path::Path::new(&name).exists() { "PATH-EXISTS" } else { "" });
                        let mut empties = 0;
                        loop {
                            let r = match drain.as_str() {
                                "try" => rx.try_recv(),
                                "timeout" => rx.try_recv_timeout(std::time::Duration::from_millis(2)),
                                _ => rx.recv().map_err(ipc::TryRecvError::IpcError),
                            };
                            match r {
                                Ok(m) => {
                                    empties = 0;
                                    let t = check_payload(&m.data);
                                    hist::log("deliver", srv as i64, t.as_ref().map(|t| t.2 as i64).unwrap_or(-1), t.as_ref().map(|t| t.0 as i64).unwrap_or(-1), "");
                                },
                                Err(ipc::TryRecvError::Empty) => {
                                    empties += 1;
                                    if empties > 200 {
                                        hist::log("recv.err", srv as i64, 0, 0, "gave up: empty for ever");
                                        break;
                                    }
                                    if drain == "try" {
                                        sim::sleep_ns(200_000);
                                    }
                                },
                                Err(ipc::TryRecvError::IpcError(IpcError::Disconnected)) => break,
                                Err(e) => {
                                    hist::log("recv.err", srv as i64, 0, 0, &format!("{:?}", e));
                                    break;
                                },
                            }
                        }
                        hist::log("drained", srv as i64, 0, 0, "");
                    },
                    Err(e) => {
                        hist::log("accept.err", srv as i64, 0, 0, &e.to_string());
                    },
                }
            });
        }
        let blocked = sim::settle();
        // servers dropped unused - in a third of the cases while the program sits exactly at its
        // descriptor limit (closing the listener is what frees the slot the clean-up needs)
        let at_limit = p["drop_at_fd_limit"].as_bool().unwrap_or(false) && !cfg!(feature = "inproc");
        let old_limit = if at_limit { Some(sim::fd_limit_with_free_slots(0)) } else { None };
        for (srv, server, name) in unused {
            drop(server);
            hist::log("server.dropped", srv as i64, 0, 0, if !cfg!(feature = "inproc") && std::path::Path::new(&name).exists() { "PATH-EXISTS" } else { "" });
        }
        if let Some(o) = old_limit {
            sim::restore_fd_limit(o);
        }
        let evs = hist::events();
        // distinct names
        let mut sorted = names.clone();
        sorted.sort();
        if sorted.windows(2).any(|w| w[0] == w[1]) {
            out.viol("duplicate-name:new", "two one-shot servers alive at the same time got the same name".into());
        }
        for (i, s) in specs.iter().enumerate() {
            let srv = i as i64 + 1;
            if !s["use"].as_bool().unwrap_or(false) {
                continue;
            }
            let ok_sends: Vec<i64> = evs.iter().filter(|e| e.op == "send.ok" && e.a == srv).map(|e| e.b).collect();
            let accept = evs.iter().find(|e| e.op == "accept.ret" && e.a == srv);
            let silent = s["msgs"].as_array().map(|a| a.is_empty()).unwrap_or(true);
            if let Some(e) = evs.iter().find(|e| (e.op == "connect.err" || e.op == "accept.err") && e.a == srv) {
                // a client that connected and left without a message: accept can only report an error
                if !(silent && e.op == "accept.err") {
                    out.viol(&format!("{}:server", e.op.replace('.', "-")), format!("server {}: {}", srv, e.s));
                }
                continue;
            }
            if silent {
                continue;
            }
            for e in evs.iter().filter(|e| e.op == "send.err" && e.a == srv) {
                out.viol("send-failed:client", format!("server {}: the client's message {} failed: {}", srv, e.b, e.s));
            }
            match accept {
                Some(a) => {
                    if a.b != 0 || a.c != srv {
                        out.viol("wrong-first-message:accept", format!("server {}: accept returned message {} of channel {} instead of the client's first message", srv, a.b, a.c));
                    }
                    if a.s == "PATH-EXISTS" {
                        out.viol("path-remains:accept", format!("server {}: the socket path still exists after accept returned", srv));
                    }
                    let rest: Vec<i64> = evs.iter().filter(|e| e.op == "deliver" && e.a == srv).map(|e| e.b).collect();
                    let want: Vec<i64> = ok_sends.iter().copied().filter(|q| *q != 0).collect();
                    let drained = evs.iter().any(|e| e.op == "drained" && e.a == srv);
                    if drained && rest != want {
                        out.viol("later-messages:accept", format!("server {}: the receiver returned by accept yielded messages {:?}, the client had sent {:?} after the first", srv, rest, want));
                    }
                    for e in evs.iter().filter(|e| e.op == "deliver" && e.a == srv && e.c != srv) {
                        out.viol("foreign-message:accept", format!("server {} received a message of server {}", srv, e.c));
                    }
                },
                None => {
                    let b = blocked.iter().find(|b| b.label == format!("acceptor{}", srv));
                    if !ok_sends.is_empty() {
                        out.viol("hang:accept", format!("server {}: the client sent {} messages but accept never returned ({})", srv, ok_sends.len(), b.map(|b| b.in_call).unwrap_or("acceptor gone")));
                    }
                },
            }
            if blocked.iter().any(|b| b.label == format!("client{}", srv)) {
                out.viol("hang:client", format!("server {}: the client blocked forever", srv));
            }
            if accept.is_some() && blocked.iter().any(|b| b.label == format!("acceptor{}", srv)) && !blocked.iter().any(|b| b.label == format!("client{}", srv)) {
                out.viol("hang:recv-after-accept", format!("server {}: the receiver returned by accept never reports the end although the client is gone", srv));
            }
        }
        for e in evs.iter().filter(|e| e.op == "server.dropped" && e.s == "PATH-EXISTS") {
            out.viol("path-remains:drop", format!("server {}: the socket path still exists after the unused server was dropped", e.a));
        }
        // no descriptor of the rendezvous remains: everything the ledger saw has been closed
        if blocked.is_empty() {
            let gl = sim::g();
            let open: Vec<(usize, u8)> = (0..sim::MAXFD).filter(|&i| gl.fds[i].open && !gl.procs[gl.fds[i].owner as usize].crashed).map(|i| (i, gl.fds[i].kind)).collect();
            if !open.is_empty() {
                out.viol("descriptor-remains:server", format!("after every server was accepted and drained or dropped, {} descriptors are still open (kinds {:?})", open.len(), open.iter().map(|x| x.1).collect::<Vec<_>>()));
            }
        }
        let st = &sim::g().stats;
        if st.inherited_by_kind[sim::K_LISTEN as usize] > 0 {
            out.viol("listener-inherited:server", format!("an unrelated child process spawned by the program inherited {} listening socket(s) of one-shot servers", st.inherited_by_kind[sim::K_LISTEN as usize]));
        }
        for pn in hist::panics() {
            out.viol(&hist::panic_sig(pn), format!("panic in [{}]: {} at {}", pn.label, pn.msg, pn.loc));
        }
        out.nontrivial = nontrivial;
        out.probe("servers", specs.len() as u64);
        out.probe("servers_ge_50", (specs.len() >= 50) as u64);
        out.probe("accepted", evs.iter().filter(|e| e.op == "accept.ret").count() as u64);
        out.probe("dropped_unused", evs.iter().filter(|e| e.op == "server.dropped").count() as u64);
        out.probe("connect_before_accept", evs.iter().filter(|e| e.op == "connect.ok").filter(|c| evs.iter().any(|a| a.op == "accept.inv" && a.a == c.a && a.seq > c.seq)).count() as u64);
        out.probe("client_gone_before_accept", evs.iter().filter(|e| e.op == "client.exit" || e.op == "crash.reaped").filter(|c| evs.iter().any(|a| a.op == "accept.inv" && (a.a == c.a || 10 + a.a % 20 == c.a) && a.seq > c.seq)).count() as u64);
        out.sample = json!({"servers": specs.len(), "accepted": evs.iter().filter(|e| e.op == "accept.ret").count(), "dropped_unused": evs.iter().filter(|e| e.op == "server.dropped").count()});
        out
    }
}
