//! C09 — sending to a vanished receiver fails cleanly; a receiver in transit still counts.
use super::util::{predict_frag, spawn_process};
use super::*;
use crate::hist;
use ipc_channel::ipc::{self, IpcReceiver, IpcSender};
use serde::{Deserialize, Serialize};

pub struct C09S;
pub static C09: C09S = C09S;

#[derive(Serialize, Deserialize)]
pub struct M9 {
    pub data: Vec<u8>,
    pub att: Vec<IpcSender<u8>>,
}

fn sender_body(tx: IpcSender<M9>, msgs: Vec<(u64, bool)>, side: IpcSender<u8>) {
    for (q, (len, att)) in msgs.iter().enumerate() {
        let data = make_payload(9, 0, q as u32, *len as usize);
        let att = if *att { vec![side.clone()] } else { vec![] };
        hist::log("send.inv", q as i64, data.len() as i64, att.len() as i64, "");
        let r = tx.send(M9 { data, att });
        match r {
            Ok(()) => hist::log("send.ok", q as i64, 0, 0, ""),
            Err(e) => hist::log("send.err", q as i64, 0, 0, &e.to_string()),
        };
        sim::yield_now();
    }
    drop(tx);
    hist::log("sender.done", 0, 0, 0, "");
}

fn recv_some(rx: &IpcReceiver<M9>, m: u64) -> u64 {
    let mut got = 0;
    for _ in 0..m {
        match rx.recv() {
            Ok(v) => {
                match check_payload(&v.data) {
                    Ok((_, _, q)) => hist::log("deliver", q as i64, v.att.len() as i64, 0, ""),
                    Err(e) => hist::log("deliver.bad", 0, 0, 0, &e),
                };
                got += 1;
            },
            Err(e) => {
                hist::log("recv.end", 0, 0, 0, &format!("{:?}", e));
                break;
            },
        }
    }
    got
}

impl Scenario for C09S {
    fn id(&self) -> &'static str {
        "C09"
    }
    fn variants(&self) -> &'static [&'static str] {
        &["os", "inproc"]
    }
    fn count(&self, tier: Tier, variant: &str) -> u64 {
        match (tier, variant) {
            (Tier::Quick, "os") => 80_000,
            (Tier::Quick, _) => 20_000,
            (Tier::Thorough, "os") => 3_000_000,
            (Tier::Thorough, _) => 600_000,
        }
    }
    fn rule(&self) -> &'static str {
        "case = (stream of 1..10 sends of single/multi-packet sizes with/without an attached endpoint; sender as thread or sim-process; receiver fate: dropped after m receives / dropped before any send / its sim-process crashes (optionally at the k-th system call of a receive) / in transit inside a carrier message whose receiver is later dropped / in transit and later unpacked and drained; schedule policy); at the end, with every handle dropped, the descriptor table must be back at its baseline; non-trivial = the receiver vanished or was in transit while at least one send was attempted; distinct = distinct (workload, schedule hash)"
    }
    fn gen(&self, seed: u64, idx: u64, _tier: Tier, variant: &str) -> Value {
        let mut r = Rng::stream(seed, idx.wrapping_mul(2654435761).wrapping_add(0xC09));
        let inproc = variant == "inproc";
        let mut sim = sim_json(&mut r, seed ^ idx.wrapping_mul(0x9E37));
        if r.chance(3, 4) && !inproc {
            sim["sndbuf"] = json!(*r.pick(&[2304u64, 2304, 4096]));
        }
        let (first, _) = predict_frag(sim["sndbuf"].as_u64(), inproc);
        let n = r.range(1, 10);
        let msgs: Vec<Value> = (0..n).map(|_| json!([size_classes(&mut r, first) as u64, r.chance(1, 4)])).collect();
        let modes: &[&str] = if inproc { &["drop", "drop_first", "carrier_drop", "transit_unpack", "transit_unpack_drop"] } else { &["drop", "drop", "drop_first", "crash", "crash", "carrier_drop", "transit_unpack", "transit_unpack_drop", "transit_unpack_drop"] };
        let mode = *r.pick(modes);
        if !inproc {
            sim["faults"] = json!(gen_env_faults(&mut r, 150));
        }
        json!({
            "unpack_try": r.chance(1, 2),
            "sim": sim, "mode": mode, "msgs": msgs,
            "sender_proc": !inproc && r.chance(1, 3),
            "recv_first": r.below(n + 1),
            "crash_at_call": if r.chance(1, 2) { json!(r.below(8)) } else { Value::Null },
            "delay_us": *r.pick(&[0u64, 0, 50, 500, 5000]),
        })
    }
    fn died(&self, how: &str, text: &str) -> Option<Violation> {
        // the scenario's main thread drops the receiver or packs it into a carrier message before
        // the other threads start; neither may block
        if how == "sim-abort" && text.contains("DEADLOCK") {
            let line = text.lines().find(|l| l.contains("'main'")).unwrap_or("").trim().to_string();
            return Some(Violation { sig: "hang:drop-or-pack-receiver".into(), detail: format!("dropping the receiver, or sending it inside a message, blocked for ever: {}", line) });
        }
        None
    }
    fn run(&self, p: &Value) -> Outcome {
        let mut out = Outcome::default();
        start_sim(p);
        let mode = p["mode"].as_str().unwrap_or("drop").to_string();
        let msgs: Vec<(u64, bool)> = p["msgs"].as_array().map(|a| a.iter().map(|m| (m[0].as_u64().unwrap_or(16).min(1 << 20), m[1].as_bool().unwrap_or(false))).collect()).unwrap_or_default();
        let msgs: Vec<(u64, bool)> = msgs.into_iter().take(12).collect();
        let nmsgs = msgs.len() as u64;
        let m = p["recv_first"].as_u64().unwrap_or(0).min(nmsgs);
        let delay = p["delay_us"].as_u64().unwrap_or(0).min(1_000_000) * 1000;
        let (first, _) = frag_sizes();
        let (side_tx, side_rx) = ipc::channel::<u8>().unwrap();
        std::mem::forget(side_rx); // the attached endpoints' receiver simply stays alive
        // (taken after the side channel exists: its descriptors are part of the baseline)
        let base_fds = super::util::fd_baseline();
        let (tx, rx) = ipc::channel::<M9>().unwrap();
        let inproc = cfg!(feature = "inproc");
        // ---- receiver side
        match mode.as_str() {
            "drop_first" => {
                hist::log("droprx.inv", 0, 0, 0, "");
                drop(rx);
                hist::log("droprx.ret", 0, 0, 0, "");
            },
            "drop" => {
                sim::spawn("receiver", None, move || {
                    recv_some(&rx, m);
                    if delay > 0 {
                        sim::sleep_ns(delay);
                    }
                    hist::log("droprx.inv", 0, 0, 0, "");
                    drop(rx);
                    hist::log("droprx.ret", 0, 0, 0, "");
                });
            },
            "crash" if !inproc => {
                let at = p["crash_at_call"].as_u64();
                spawn_process("receiver", 7, rx, move |rx: IpcReceiver<M9>| {
                    recv_some(&rx, m);
                    match at {
                        Some(k) => {
                            // die at the k-th system call of the next receive
                            sim::arm_crash(7, k);
                            recv_some(&rx, 1);
                            sim::crash_now();
                        },
                        None => sim::crash_now(),
                    }
                });
            },
            "carrier_drop" | "transit_unpack" | "transit_unpack_drop" => {
                let (ctx, crx) = ipc::channel::<IpcReceiver<M9>>().unwrap();
                hist::log("pack.inv", 0, 0, 0, "");
                ctx.send(rx).unwrap();
                hist::log("pack.ret", 0, 0, 0, "");
                let unpack = mode != "carrier_drop";
                let then_drop = mode == "transit_unpack_drop";
                let unpack_try = p["unpack_try"].as_bool().unwrap_or(false);
                sim::spawn("holder", None, move || {
                    let _keep = ctx;
                    if delay > 0 {
                        sim::sleep_ns(delay);
                    } else {
                        for _ in 0..m {
                            sim::yield_now();
                        }
                    }
                    if unpack {
                        hist::log("unpack.inv", 0, 0, 0, "");
                        let rx = if unpack_try { crx.try_recv().unwrap() } else { crx.recv().unwrap() };
                        hist::log("unpack.ret", 0, 0, 0, "");
                        if then_drop {
                            recv_some(&rx, m);
                            sim::sleep_ns(delay);
                            hist::log("droprx.inv", 0, 0, 0, "");
                            drop(rx);
                            hist::log("droprx.ret", 0, 0, 0, "");
                        } else {
                            recv_some(&rx, u64::MAX);
                        }
                    } else {
                        hist::log("droprx.inv", 0, 0, 0, "carrier");
                        drop(crx);
                        hist::log("droprx.ret", 0, 0, 0, "carrier");
                    }
                });
            },
            _ => {
                // (crash on the in-process build: no processes) behave like "drop"
                sim::spawn("receiver", None, move || {
                    recv_some(&rx, m);
                    hist::log("droprx.inv", 0, 0, 0, "");
                    drop(rx);
                    hist::log("droprx.ret", 0, 0, 0, "");
                });
            },
        }
        // ---- sender side
        if p["sender_proc"].as_bool().unwrap_or(false) && !inproc {
            let msgs2 = msgs.clone();
            spawn_process("sender", 3, (tx, side_tx), move |(tx, side): (IpcSender<M9>, IpcSender<u8>)| sender_body(tx, msgs2, side));
        } else {
            let msgs2 = msgs.clone();
            sim::spawn("sender", None, move || sender_body(tx, msgs2, side_tx));
        }
        let blocked = sim::settle();

        // ------------------------------------------------------------ oracle
        let evs = hist::events();
        let gone: Option<u64> = evs.iter().find(|e| e.op == "droprx.ret" || e.op == "crash.reaped").map(|e| e.seq);
        let mut sends: Vec<(i64, u64, Option<u64>, bool, String)> = vec![];
        let mut delivered: Vec<i64> = vec![];
        for e in evs {
            match e.op {
                "send.inv" => sends.push((e.a, e.seq, None, false, String::new())),
                "send.ok" | "send.err" => {
                    if let Some(s) = sends.iter_mut().find(|s| s.0 == e.a) {
                        s.2 = Some(e.seq);
                        s.3 = e.op == "send.ok";
                        s.4 = e.s.clone();
                    }
                },
                "deliver" => delivered.push(e.a),
                "deliver.bad" => out.viol("torn:recv", format!("received payload is not a whole sent message: {}", e.s)),
                _ => {},
            }
        }
        let multi = |len: u64| (len as usize).max(16) + 24 > first;
        if let Some(g) = gone {
            for s in &sends {
                if s.1 > g && s.3 {
                    out.viol("send-ok-after-receiver-gone:send", format!("send #{} began (#{}) after the receiving end had certainly ceased to exist (#{}) and still returned Ok", s.0, s.1, g));
                }
            }
        }
        for b in &blocked {
            if b.label == "sender" {
                let cur = sends.iter().find(|s| s.2.is_none());
                let what = cur.map(|s| format!("send #{} ({} bytes{})", s.0, msgs.get(s.0 as usize).map(|m| m.0).unwrap_or(0), if msgs.get(s.0 as usize).map(|m| multi(m.0)).unwrap_or(false) { ", multi-packet" } else { "" })).unwrap_or_default();
                let sig = if gone.is_some() { "hang:send-after-receiver-gone" } else { "hang:send" };
                out.viol(sig, format!("sender blocked forever in {} during {} (receiver gone: {})", b.in_call, what, gone.is_some()));
            }
        }
        // a send that had returned an error before anything began to take the receiving end away
        // (it existed, at a receiver or in transit inside an undelivered message) failed without cause
        {
            let first_threat = evs.iter().find(|e| e.op == "droprx.inv" || e.op == "crash").map(|e| e.seq).unwrap_or(u64::MAX);
            for s in &sends {
                if let Some(r) = s.2 {
                    if !s.3 && r < first_threat {
                        out.viol("send-err-while-receiver-exists:send", format!("send #{} failed ({}) at #{} although the receiving end existed until #{} at the earliest", s.0, s.4, r, first_threat));
                    }
                }
            }
        }
        if mode == "transit_unpack" {
            for s in &sends {
                if s.2.is_some() && !s.3 {
                    out.viol("send-err-while-in-transit:send", format!("send #{} failed ({}) although the receiving end only was in transit inside an undelivered message", s.0, s.4));
                }
            }
            let ok: Vec<i64> = sends.iter().filter(|s| s.3).map(|s| s.0).collect();
            if !blocked.iter().any(|b| b.label == "sender") && delivered != ok {
                out.viol("lost-after-unpack:recv", format!("after unpacking the receiver in transit: sent Ok {:?} but delivered {:?}", ok, delivered));
            }
        }
        // "fails cleanly": once every thread is done and every handle dropped, nothing that a
        // failed (or successful) send set up for its transfer may remain open
        if blocked.is_empty() && !hist::panics().iter().any(|p| hist::library_panic(p)) {
            let extra = super::util::fds_beyond(&base_fds);
            if !extra.is_empty() {
                let failed = sends.iter().filter(|s| s.2.is_some() && !s.3).count();
                out.viol("descriptor-leak:end", format!("{} descriptor(s) remain open after every handle was dropped ({} of {} sends failed): {}", extra.len(), failed, sends.len(), extra.join(", ")));
            }
        }
        if sim::SIGPIPES.load(std::sync::atomic::Ordering::SeqCst) > 0 {
            out.viol("sigpipe:send", "SIGPIPE was raised by a send to a vanished receiver".into());
        }
        for pn in hist::panics() {
            if pn.label == "sender" || hist::library_panic(pn) {
                out.viol(&hist::panic_sig(pn), format!("[{}] panicked: {} at {}", pn.label, pn.msg, pn.loc));
            }
        }
        let attempted_after = gone.map(|g| sends.iter().any(|s| s.2.map(|r| r > g).unwrap_or(true))).unwrap_or(false);
        out.nontrivial = attempted_after || mode == "transit_unpack";
        out.probe("send_err", sends.iter().filter(|s| s.2.is_some() && !s.3).count() as u64);
        out.probe("send_ok", sends.iter().filter(|s| s.3).count() as u64);
        out.probe("sends_after_gone", gone.map(|g| sends.iter().filter(|s| s.1 > g).count() as u64).unwrap_or(0));
        out.probe("send_in_flight_when_gone", gone.map(|g| sends.iter().filter(|s| s.1 < g && s.2.map(|r| r > g).unwrap_or(true)).count() as u64).unwrap_or(0));
        out.probe("multi_packet_in_flight_when_gone", gone.map(|g| sends.iter().filter(|s| s.1 < g && s.2.map(|r| r > g).unwrap_or(true) && msgs.get(s.0 as usize).map(|m| multi(m.0)).unwrap_or(false)).count() as u64).unwrap_or(0));
        out.probe(&format!("mode_{}", mode), 1);
        out.sample = json!({"mode": mode, "msgs": msgs.len(), "gone_at": gone, "sends": sends.iter().map(|s| json!([s.0, s.3])).collect::<Vec<_>>(), "delivered": delivered.len()});
        out
    }
}
