//! C10 — non-blocking and timed receives never block, miss a message, or poison.
use super::util::predict_frag;
use super::*;
use crate::hist;
use ipc_channel::ipc::{self, IpcError, IpcSender, TryRecvError};
use std::time::Duration;

pub struct C10S;
pub static C10: C10S = C10S;

fn sender_body(tx: IpcSender<Vec<u8>>, sid: u32, script: Vec<Value>) {
    let mut tx = Some(tx);
    let mut q = 0u32;
    for op in script {
        match op[0].as_str().unwrap_or("") {
            "sleep" => sim::sleep_ns(op[1].as_u64().unwrap_or(0).min(10_000_000_000) * 1000),
            "send" => {
                if let Some(t) = &tx {
                    let p = make_payload(10, sid, q, op[1].as_u64().unwrap_or(16).min(1 << 20) as usize);
                    hist::log("send.inv", sid as i64, q as i64, p.len() as i64, "");
                    let r = t.send(p);
                    hist::log(if r.is_ok() { "send.ok" } else { "send.err" }, sid as i64, q as i64, 0, "");
                    q += 1;
                }
            },
            "drop" => {
                if let Some(t) = tx.take() {
                    hist::log("drop.inv", sid as i64, 0, 0, "");
                    drop(t);
                    hist::log("drop.ret", sid as i64, 0, 0, "");
                }
            },
            _ => {},
        }
    }
    if let Some(t) = tx.take() {
        hist::log("drop.inv", sid as i64, 0, 0, "");
        drop(t);
        hist::log("drop.ret", sid as i64, 0, 0, "");
    }
}

impl Scenario for C10S {
    fn id(&self) -> &'static str {
        "C10"
    }
    fn variants(&self) -> &'static [&'static str] {
        &["os", "inproc", "hook"]
    }
    fn count(&self, tier: Tier, variant: &str) -> u64 {
        match (tier, variant) {
            (Tier::Quick, "os") => 80_000,
            (Tier::Quick, _) => 25_000,
            (Tier::Thorough, "os") => 3_000_000,
            (Tier::Thorough, _) => 800_000,
        }
    }
    fn rule(&self) -> &'static str {
        "case = receiver script mixing recv / try_recv / try_recv_timeout(d) (d in 0, sub-ms, 1 ms .. 1 h) and virtual sleeps, against 1..2 sender threads whose scripts sleep (virtual time), send single/multi-packet messages and drop, so arrivals and drops land before, inside and after each wait; non-trivial = at least one timed or non-blocking call was judged while a sender was still alive; distinct = distinct (workload, schedule hash)"
    }
    fn gen(&self, seed: u64, idx: u64, _tier: Tier, variant: &str) -> Value {
        let mut r = Rng::stream(seed, idx.wrapping_mul(2654435761).wrapping_add(0xC10));
        let inproc = variant == "inproc";
        let mut sim = sim_json(&mut r, seed ^ idx.wrapping_mul(0x9E37));
        if r.chance(2, 3) && !inproc {
            sim["sndbuf"] = json!(2304);
        }
        let (first, _) = predict_frag(sim["sndbuf"].as_u64(), inproc);
        let durs = [0u64, 1, 300, 999, 1000, 1001, 1500, 2000, 10_000, 1_000_000, 3_600_000_000];
        let gaps = [0u64, 0, 100, 500, 999, 1000, 1200, 2500, 9000, 20_000, 2_000_000];
        let nsend = r.range(1, 2);
        let mut senders = vec![];
        for _ in 0..nsend {
            let mut s = vec![];
            for _ in 0..r.range(1, 7) {
                match r.below(10) {
                    0..=3 => s.push(json!(["sleep", *r.pick(&gaps)])),
                    4..=8 => s.push(json!(["send", size_classes(&mut r, first) as u64])),
                    _ => s.push(json!(["drop"])),
                }
            }
            senders.push(json!(s));
        }
        let mut recv = vec![];
        for _ in 0..r.range(2, 10) {
            match r.below(10) {
                0..=1 => recv.push(json!(["recv"])),
                2..=4 => recv.push(json!(["try"])),
                5..=8 => recv.push(json!(["timeout", *r.pick(&durs)])),
                _ => recv.push(json!(["sleep", *r.pick(&gaps)])),
            }
        }
        if r.chance(1, 4) {
            // a slow or descheduled thread: the clock jumps forward at a scheduling step, e.g. while
            // a sender is between two packets or a receiver between poll and recvmsg
            let f: Vec<Value> = (0..r.range(1, 2)).map(|_| json!({"k": "timejump", "step": r.range(2, 120), "ns": *r.pick(&[400_000u64, 1_000_000, 3_000_000, 1_000_000_000])})).collect();
            sim["faults"] = json!(f);
        }
        json!({"sim": sim, "senders": senders, "recv": recv})
    }
    fn run(&self, p: &Value) -> Outcome {
        let mut out = Outcome::default();
        start_sim(p);
        let (tx, rx) = ipc::channel::<Vec<u8>>().unwrap();
        let senders = p["senders"].as_array().cloned().unwrap_or_default();
        let nsend = senders.len().min(4);
        for (i, s) in senders.iter().enumerate().take(4) {
            let t = tx.clone();
            let script = s.as_array().cloned().unwrap_or_default();
            sim::spawn(&format!("sender{}", i), None, move || sender_body(t, i as u32, script));
        }
        drop(tx);
        let rscript = p["recv"].as_array().cloned().unwrap_or_default();
        sim::spawn("receiver", None, move || {
            let mut calls = rscript;
            // whatever the script did before, a final blocking receive must still behave
            calls.push(json!(["recv"]));
            calls.push(json!(["recv"]));
            for (ci, op) in calls.iter().enumerate() {
                let kind = op[0].as_str().unwrap_or("");
                let d_us = op[1].as_u64().unwrap_or(0);
                if kind == "sleep" {
                    sim::sleep_ns(d_us.min(10_000_000_000) * 1000);
                    continue;
                }
                let kcode = match kind {
                    "recv" => 0,
                    "try" => 1,
                    _ => 2,
                };
                hist::log("call.inv", ci as i64, kcode, d_us as i64, "");
                let r: Result<Vec<u8>, TryRecvError> = match kcode {
                    0 => rx.recv().map_err(TryRecvError::IpcError),
                    1 => rx.try_recv(),
                    _ => rx.try_recv_timeout(Duration::from_micros(d_us)),
                };
                match r {
                    Ok(v) => match check_payload(&v) {
                        Ok((_, s, q)) => {
                            hist::log("call.msg", ci as i64, s as i64, q as i64, "");
                        },
                        Err(e) => {
                            hist::log("call.bad", ci as i64, 0, 0, &e);
                        },
                    },
                    Err(TryRecvError::Empty) => {
                        hist::log("call.empty", ci as i64, 0, 0, "");
                    },
                    Err(TryRecvError::IpcError(IpcError::Disconnected)) => {
                        hist::log("call.closed", ci as i64, 0, 0, "");
                        break;
                    },
                    Err(e) => {
                        hist::log("call.err", ci as i64, 0, 0, &format!("{:?}", e));
                    },
                }
            }
            hist::log("receiver.done", 0, 0, 0, "");
        });
        let blocked = sim::settle();

        // ------------------------------------------------------------ oracle
        let evs = hist::events();
        struct Snd {
            s: i64,
            q: i64,
            inv: u64,
            ret: Option<(u64, u64)>, // (seq, vns)
            ok: bool,
        }
        let mut sends: Vec<Snd> = vec![];
        let mut drops: Vec<(i64, u64, Option<(u64, u64)>)> = vec![]; // sid, inv, ret(seq,vns)
        for e in evs {
            match e.op {
                "send.inv" => sends.push(Snd { s: e.a, q: e.b, inv: e.seq, ret: None, ok: false }),
                "send.ok" | "send.err" => {
                    if let Some(s) = sends.iter_mut().find(|s| s.s == e.a && s.q == e.b) {
                        s.ret = Some((e.seq, e.vns));
                        s.ok = e.op == "send.ok";
                    }
                },
                "drop.inv" => drops.push((e.a, e.seq, None)),
                "drop.ret" => {
                    if let Some(d) = drops.iter_mut().find(|d| d.0 == e.a) {
                        d.2 = Some((e.seq, e.vns));
                    }
                },
                _ => {},
            }
        }
        let all_dropped_before = |t: u64| -> bool { drops.len() == nsend && drops.iter().all(|d| d.2.map(|r| r.0 < t).unwrap_or(false)) };
        let any_alive_certainly_at = |t: u64| -> bool { drops.len() < nsend || drops.iter().any(|d| d.1 > t) };
        let last_drop_vns = drops.iter().filter_map(|d| d.2.map(|r| r.1)).max().unwrap_or(0);
        let mut delivered: Vec<(i64, i64)> = vec![];
        let mut cur: Option<(i64, i64, i64, u64, u64)> = None; // ci, kind, d_us, seq, vns
        let mut judged = 0u64;
        let mut judged_alive = 0u64;
        // with injected clock jumps, elapsed virtual time says nothing about blocking
        // a call is excused from the timing rules only if a clock jump fell inside it
        let jumps: Vec<(u64, u64)> = sim::g().timejumps.clone();
        let spans_jump = |inv_vns: u64, ret_vns: u64| jumps.iter().any(|(b, a)| inv_vns <= *b && *a <= ret_vns);
        for e in evs {
            if e.op == "call.inv" {
                cur = Some((e.a, e.b, e.c, e.seq, e.vns));
                continue;
            }
            if !e.op.starts_with("call.") {
                continue;
            }
            let (ci, kind, d_us, inv, inv_vns) = match cur {
                Some(c) => c,
                None => continue,
            };
            let kname = ["recv", "try_recv", "try_recv_timeout"][kind as usize];
            let elapsed = e.vns - inv_vns;
            let d_ms_ns = (d_us as u64 / 1000) * 1_000_000;
            judged += 1;
            if kind != 0 && any_alive_certainly_at(e.seq) {
                judged_alive += 1;
            }
            let pending_before_inv: Vec<&Snd> = sends.iter().filter(|s| s.ok && s.ret.map(|r| r.0 < inv).unwrap_or(false) && !delivered.contains(&(s.s, s.q))).collect();
            match e.op {
                "call.msg" => {
                    let key = (e.b, e.c);
                    if delivered.contains(&key) {
                        out.viol(&format!("duplicate:{}", kname), format!("call {} ({}) returned message {:?} a second time", ci, kname, key));
                    }
                    let snd = sends.iter().find(|s| s.s == key.0 && s.q == key.1);
                    match snd {
                        None => out.viol(&format!("phantom:{}", kname), format!("call {} returned a message {:?} that was never sent", ci, key)),
                        Some(s) => {
                            // per-sender FIFO
                            if sends.iter().any(|o| o.s == s.s && o.q < s.q && o.ok && !delivered.contains(&(o.s, o.q))) {
                                out.viol(&format!("order:{}", kname), format!("call {} returned {:?} before an earlier message of the same sender", ci, key));
                            }
                            // no waiting once the message is there
                            if kind != 0 && !spans_jump(inv_vns, e.vns) {
                                let avail_vns = s.ret.map(|r| r.1).unwrap_or(u64::MAX).max(inv_vns);
                                if e.vns > avail_vns {
                                    out.viol(&format!("late-return:{}", kname), format!("call {} ({} d={}us) returned message {:?} at t={}ns although it was completely sent by t={}ns", ci, kname, d_us, key, e.vns, avail_vns));
                                }
                            }
                        },
                    }
                    delivered.push(key);
                },
                "call.empty" => {
                    if kind == 0 {
                        out.viol("empty:recv", format!("blocking recv (call {}) returned 'empty'", ci));
                    }
                    if let Some(m) = pending_before_inv.first() {
                        out.viol(&format!("empty-with-message:{}", kname), format!("call {} ({}) reported empty although message ({},{}) had been completely sent before the call began", ci, kname, m.s, m.q));
                    }
                    if all_dropped_before(inv) && !sends.iter().any(|s| s.ok && !delivered.contains(&(s.s, s.q))) {
                        out.viol(&format!("empty-when-disconnected:{}", kname), format!("call {} ({}) reported empty although every sender had been dropped before the call and nothing was pending", ci, kname));
                    }
                    if kind == 1 && elapsed != 0 && !spans_jump(inv_vns, e.vns) {
                        out.viol("blocked:try_recv", format!("try_recv (call {}) took {} ns of virtual time to report empty", ci, elapsed));
                    }
                    if kind == 2 {
                        if elapsed < d_ms_ns {
                            out.viol("early-empty:try_recv_timeout", format!("try_recv_timeout({}us) (call {}) reported empty after only {} ns", d_us, ci, elapsed));
                        }
                        // something that happened during the wait must end it
                        let deadline = inv_vns + d_ms_ns;
                        for s in sends.iter().filter(|s| s.ok && !delivered.contains(&(s.s, s.q))) {
                            if let Some((rs, rv)) = s.ret {
                                if rs < e.seq && rv < deadline {
                                    out.viol("missed-message:try_recv_timeout", format!("try_recv_timeout({}us) (call {}) reported empty at t={} although message ({},{}) was completely sent at t={} before the deadline t={}", d_us, ci, e.vns, s.s, s.q, rv, deadline));
                                }
                            }
                        }
                    }
                },
                "call.closed" => {
                    if any_alive_certainly_at(e.seq) {
                        out.viol(&format!("false-disconnect:{}", kname), format!("call {} ({}) reported disconnected while a sender certainly still existed", ci, kname));
                    }
                    if let Some(s) = sends.iter().find(|s| s.ok && !delivered.contains(&(s.s, s.q))) {
                        out.viol(&format!("disconnect-before-delivery:{}", kname), format!("call {} ({}) reported disconnected before delivering message ({},{})", ci, kname, s.s, s.q));
                    }
                    if kind != 0 && !spans_jump(inv_vns, e.vns) && e.vns > last_drop_vns.max(inv_vns) {
                        out.viol(&format!("late-return:{}", kname), format!("call {} ({} d={}us) reported disconnected at t={} although the last sender was gone at t={}", ci, kname, d_us, e.vns, last_drop_vns));
                    }
                    if kind == 1 && elapsed != 0 && !spans_jump(inv_vns, e.vns) {
                        out.viol("blocked:try_recv", format!("try_recv (call {}) took {} ns of virtual time", ci, elapsed));
                    }
                },
                "call.err" => {
                    out.viol(&format!("error:{}", kname), format!("call {} ({}) failed with {} (a receive must not be poisoned by earlier non-blocking or timed receives)", ci, kname, e.s));
                },
                "call.bad" => out.viol(&format!("torn:{}", kname), format!("call {}: {}", ci, e.s)),
                _ => {},
            }
            if e.op == "call.msg" && kind == 1 && elapsed != 0 && !spans_jump(inv_vns, e.vns) {
                out.viol("blocked:try_recv", format!("try_recv (call {}) took {} ns of virtual time to return a message", ci, elapsed));
            }
            cur = None;
        }
        for b in &blocked {
            if b.label == "receiver" {
                let (ci, kind) = cur.map(|c| (c.0, c.1)).unwrap_or((-1, 0));
                let kname = ["recv", "try_recv", "try_recv_timeout"][kind as usize];
                let pending = sends.iter().any(|s| s.ok && !delivered.contains(&(s.s, s.q)));
                if pending || all_dropped_before(u64::MAX) {
                    out.viol(&format!("hang:{}", kname), format!("receiver blocked forever in {} (call {}, {}); message pending: {}, all senders dropped: {}", b.in_call, ci, kname, pending, all_dropped_before(u64::MAX)));
                }
            }
            if b.label.starts_with("sender") {
                out.viol("hang:send", format!("{} blocked forever in {}", b.label, b.in_call));
            }
        }
        if !blocked.iter().any(|b| b.label == "receiver") && !evs.iter().any(|e| e.op == "receiver.done") {
            out.viol("receiver-died:recv", "the receiving thread died (panic in the receive path)".into());
        }
        out.nontrivial = judged_alive > 0;
        out.probe("calls_judged", judged);
        out.probe("timed_or_nonblocking_calls_judged_with_live_sender", judged_alive);
        out.probe("timeouts_expired", evs.iter().filter(|e| e.op == "call.empty").count() as u64);
        out.probe("messages", delivered.len() as u64);
        out.sample = json!({"senders": nsend, "calls": judged, "delivered": delivered.len(), "virtual_ms": (sim::now_ns() - 1_000_000_000_000) / 1_000_000});
        out
    }
}
