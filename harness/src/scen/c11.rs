//! C11 — no descriptor, mapping or file is leaked, closed twice or inherited.
use super::c19::Msg;
use super::*;
use crate::hist;
use ipc_channel::ipc::{self, IpcOneShotServer, IpcReceiver, IpcReceiverSet, IpcSelectionResult, IpcSender, IpcSharedMemory};
use ipc_channel::router::RouterProxy;
use std::collections::BTreeMap;
use std::time::Duration;

pub struct C11S;
pub static C11: C11S = C11S;

use super::util::list_fds;
/// descriptors in the ledger that lack FD_CLOEXEC right now
fn not_cloexec() -> Vec<(i32, u8, u8)> {
    let gl = sim::g();
    let mut v = vec![];
    for fd in 0..sim::MAXFD {
        if gl.fds[fd].open {
            let fl = unsafe { sim::raw6(libc::SYS_fcntl, fd as i64, libc::F_GETFD as i64, 0, 0, 0, 0) };
            if fl >= 0 && fl & libc::FD_CLOEXEC as i64 == 0 {
                v.push((fd as i32, gl.fds[fd].kind, gl.fds[fd].via));
            }
        }
    }
    v
}

struct St {
    senders: Vec<(u32, IpcSender<Msg>)>,
    receivers: Vec<(u32, IpcReceiver<Msg>)>,
    queued: BTreeMap<u32, i64>,
    set: Option<IpcReceiverSet>,
    members: BTreeMap<u64, u32>,
    servers: Vec<(IpcOneShotServer<Msg>, String, u32)>,
    regions: Vec<IpcSharedMemory>,
    routers: Vec<RouterProxy>,
    next_c: u32,
    next_id: u64,
    victims: u32,
}

fn keep(st: &mut St, m: Msg, r: &mut Rng) {
    match m {
        Msg::Tx(_, c, t) => {
            if r.chance(2, 3) {
                st.senders.push((c, t));
            }
        },
        Msg::Rx(_, c, rx) => {
            if r.chance(2, 3) {
                st.receivers.push((c, rx));
            }
        },
        Msg::Region(_, g) => {
            if r.chance(1, 2) {
                st.regions.push(g);
            }
        },
        Msg::Plain(_) => {},
    }
}

/// a message whose data part spans several packets, optionally with an attachment-carrying value
pub type BigMsg = (Vec<u8>, Option<Msg>);

fn one_op(st: &mut St, r: &mut Rng, log: &mut Vec<String>, big_tx: &IpcSender<BigMsg>) {
    let op = r.below(100);
    if op < 8 {
        match ipc::channel::<Msg>() {
            Ok((t, rx)) => {
                let c = st.next_c;
                st.next_c += 1;
                st.senders.push((c, t));
                st.receivers.push((c, rx));
                st.queued.insert(c, 0);
                log.push(format!("new c{}", c));
            },
            Err(e) => log.push(format!("new failed: {}", e)),
        }
    } else if op < 13 {
        if !st.senders.is_empty() {
            let i = r.below(st.senders.len() as u64) as usize;
            let (c, t) = (st.senders[i].0, st.senders[i].1.clone());
            st.senders.push((c, t));
            log.push(format!("clone tx c{}", c));
        }
    } else if op < 20 {
        if !st.senders.is_empty() {
            let i = r.below(st.senders.len() as u64) as usize;
            let (c, _t) = st.senders.remove(i);
            log.push(format!("drop tx c{}", c));
        }
    } else if op < 45 {
        // send (to live or closed receivers alike; never enough to fill a socket buffer)
        if st.senders.is_empty() {
            return;
        }
        let i = r.below(st.senders.len() as u64) as usize;
        let c = st.senders[i].0;
        if *st.queued.get(&c).unwrap_or(&0) >= 20 {
            return;
        }
        let id = st.next_id;
        st.next_id += 1;
        let k = r.below(10);
        let msg = if k < 4 {
            Msg::Plain(id)
        } else if k < 6 && st.senders.len() > 1 {
            let j = (i + 1 + r.below(st.senders.len() as u64 - 1) as usize) % st.senders.len();
            if st.senders[j].0 == c {
                Msg::Plain(id)
            } else {
                let (d, t) = st.senders.remove(j);
                Msg::Tx(id, d, t)
            }
        } else if k < 8 && !st.receivers.is_empty() {
            let j = r.below(st.receivers.len() as u64) as usize;
            if st.receivers[j].0 <= c {
                Msg::Plain(id)
            } else {
                let (d, rx) = st.receivers.remove(j);
                Msg::Rx(id, d, rx)
            }
        } else {
            Msg::Region(id, IpcSharedMemory::from_bytes(&vec![id as u8; (id % 5000) as usize]))
        };
        let si = st.senders.iter().position(|s| s.0 == c);
        if let Some(si) = si {
            let res = st.senders[si].1.send(msg);
            if res.is_ok() {
                *st.queued.entry(c).or_insert(0) += 1;
            }
            log.push(format!("send c{} #{} -> {}", c, id, if res.is_ok() { "ok" } else { "err" }));
        }
    } else if op < 46 && !cfg!(feature = "inproc") && st.victims < 3 {
        // a sending sim-process that dies in the middle of a multi-packet message carrying a
        // sender and a region; we receive until the channel reports the end
        type Big = (Vec<u8>, Vec<IpcSharedMemory>, Option<IpcSender<u32>>);
        if let Ok((vtx, vrx)) = ipc::channel::<Big>() {
            st.victims += 1;
            let pid = 20 + st.victims;
            let k = r.below(14);
            let nreg = r.range(1, 3) as usize;
            sim::suspend_fd_faults(true);
            super::util::spawn_process(&format!("victim{}", pid), pid, vtx, move |vtx: IpcSender<Big>| {
                let _ = vtx.send((vec![1, 2, 3], vec![], None));
                let side = ipc::channel::<u32>().ok();
                let regs: Vec<IpcSharedMemory> = (0..nreg).map(|i| IpcSharedMemory::from_byte(5, 10_000 + i)).collect();
                // a multi-packet message that carries regions and an endpoint
                sim::arm_crash(pid, k);
                let _ = vtx.send((vec![7u8; 500_000], regs, side.map(|s| s.0)));
                sim::disarm_crash(pid);
                sim::crash_now();
            });
            sim::suspend_fd_faults(false);
            let mut n = 0;
            while let Ok(m) = vrx.recv() {
                n += 1;
                drop(m);
            }
            log.push(format!("victim process crashed at call {} of a multi-packet send with {} regions; {} messages received", k, nreg, n));
        }
    } else if op < 48 {
        // a multi-packet message with attachments to the channel that a background thread drains
        let id = st.next_id;
        st.next_id += 1;
        let att = if !st.senders.is_empty() && r.chance(1, 2) { Some(st.senders.remove(r.below(st.senders.len() as u64) as usize)) } else { None };
        let len = *r.pick(&[250_000usize, 300_000, 700_000]);
        if r.chance(1, 3) {
            // the same to a receiver that is already gone: the send fails, and everything it had
            // set up for the transfer (dedicated channel, attachment copies) must be released
            sim::suspend_fd_faults(true);
            let ch = ipc::channel::<BigMsg>();
            sim::suspend_fd_faults(false);
            if let Ok((t, rx)) = ch {
                drop(rx);
                let inner = match att {
                    Some((d, tx)) => Some(Msg::Tx(id, d, tx)),
                    None if r.chance(1, 2) => Some(Msg::Region(id, IpcSharedMemory::from_byte(3, 30_000))),
                    None => None,
                };
                let res = t.send((vec![9u8; len], inner));
                log.push(format!("big send #{} to a closed receiver -> {}", id, res.is_ok()));
            }
            return;
        }
        let res = match att {
            Some((d, t)) => big_tx.send((vec![9u8; len], Some(Msg::Tx(id, d, t)))).and_then(|_| big_tx.send((vec![], Some(Msg::Region(id, IpcSharedMemory::from_byte(3, 300_000)))))),
            None => big_tx.send((vec![9u8; len], Some(Msg::Region(id, IpcSharedMemory::from_byte(3, 250_000))))),
        };
        log.push(format!("big send #{} ({} bytes) -> {}", id, len, res.is_ok()));
    } else if op < 68 {
        if st.receivers.is_empty() {
            return;
        }
        let i = r.below(st.receivers.len() as u64) as usize;
        let c = st.receivers[i].0;
        let res = match r.below(3) {
            0 => st.receivers[i].1.try_recv(),
            1 => st.receivers[i].1.try_recv_timeout(Duration::from_micros(*r.pick(&[0u64, 400, 1500]))),
            _ => {
                if *st.queued.get(&c).unwrap_or(&0) > 0 {
                    st.receivers[i].1.recv().map_err(ipc::TryRecvError::IpcError)
                } else {
                    st.receivers[i].1.try_recv()
                }
            },
        };
        match res {
            Ok(m) => {
                *st.queued.entry(c).or_insert(1) -= 1;
                log.push(format!("recv c{} -> msg", c));
                keep(st, m, r);
            },
            Err(e) => log.push(format!("recv c{} -> {:?}", c, e).chars().take(60).collect()),
        }
    } else if op < 74 {
        if st.receivers.is_empty() {
            return;
        }
        if st.set.is_none() {
            match IpcReceiverSet::new() {
                Ok(s) => st.set = Some(s),
                Err(e) => {
                    log.push(format!("set new failed: {}", e));
                    return;
                },
            }
        }
        let i = r.below(st.receivers.len() as u64) as usize;
        let (c, rx) = st.receivers.remove(i);
        match st.set.as_mut().unwrap().add(rx) {
            Ok(id) => {
                st.members.insert(id, c);
                log.push(format!("add c{}", c));
            },
            Err(e) => log.push(format!("add failed: {}", e)),
        }
    } else if op < 80 {
        let pending = st.members.values().any(|c| *st.queued.get(c).unwrap_or(&0) > 0);
        if !pending || st.set.is_none() {
            return;
        }
        match st.set.as_mut().unwrap().select() {
            Ok(rs) => {
                for ev in rs {
                    match ev {
                        IpcSelectionResult::MessageReceived(id, om) => {
                            if let Some(c) = st.members.get(&id) {
                                *st.queued.entry(*c).or_insert(1) -= 1;
                            }
                            if r.chance(1, 2) {
                                // dropped without decoding
                                log.push("select -> msg (dropped undecoded)".into());
                                drop(om);
                            } else {
                                match om.to::<Msg>() {
                                    Ok(m) => {
                                        log.push("select -> msg".into());
                                        keep(st, m, r);
                                    },
                                    Err(e) => log.push(format!("select decode err {}", e)),
                                }
                            }
                        },
                        IpcSelectionResult::ChannelClosed(id) => {
                            st.members.remove(&id);
                            log.push("select -> closed".into());
                        },
                    }
                }
            },
            Err(e) => log.push(format!("select failed: {}", e)),
        }
    } else if op < 84 {
        if !st.receivers.is_empty() {
            let i = r.below(st.receivers.len() as u64) as usize;
            let (c, _rx) = st.receivers.remove(i);
            st.queued.insert(c, 0);
            log.push(format!("drop rx c{}", c));
        }
    } else if op < 86 {
        if st.set.take().is_some() {
            st.members.clear();
            log.push("drop set".into());
        }
    } else if op < 92 {
        match r.below(5) {
            0 => match IpcOneShotServer::<Msg>::new() {
                Ok((s, name)) => {
                    let c = st.next_c;
                    st.next_c += 1;
                    st.servers.push((s, name, c));
                    log.push(format!("server c{}", c));
                },
                Err(e) => log.push(format!("server failed: {}", e)),
            },
            1 => {
                // connect and send the first message, then accept
                if let Some((s, name, c)) = st.servers.pop() {
                    match IpcSender::<Msg>::connect(name) {
                        Ok(t) => {
                            let _ = t.send(Msg::Plain(0));
                            match s.accept() {
                                Ok((rx, _first)) => {
                                    st.receivers.push((c, rx));
                                    st.senders.push((c, t));
                                    st.queued.insert(c, 0);
                                    log.push(format!("connect+accept c{}", c));
                                },
                                Err(e) => log.push(format!("accept failed: {}", e)),
                            }
                        },
                        Err(e) => log.push(format!("connect failed: {}", e)),
                    }
                }
            },
            2 => {
                if let Some((_s, _n, c)) = st.servers.pop() {
                    log.push(format!("drop server c{}", c));
                }
            },
            _ => {
                // a name that does not exist (any more)
                let r2 = IpcSender::<Msg>::connect(format!("{}/no-such-ipc-channel-server-{}", std::env::temp_dir().display(), st.next_id));
                log.push(format!("connect to nothing -> {}", if r2.is_ok() { "ok?!" } else { "err" }));
            },
        }
    } else if op < 97 {
        match r.below(4) {
            0 => st.regions.push(IpcSharedMemory::from_bytes(&vec![7u8; *r.pick(&[0usize, 1, 4095, 4096, 4097, 70000])])),
            1 => st.regions.push(IpcSharedMemory::from_byte(9, *r.pick(&[0usize, 3, 8192, 100_001]))),
            2 => {
                if !st.regions.is_empty() {
                    let g = st.regions[r.below(st.regions.len() as u64) as usize].clone();
                    st.regions.push(g);
                }
            },
            _ => {
                if !st.regions.is_empty() {
                    let i = r.below(st.regions.len() as u64) as usize;
                    st.regions.remove(i);
                }
            },
        }
        log.push("region op".into());
    } else {
        // router: route a receiver (its messages are decoded and dropped), sometimes shut down
        if st.routers.len() < 2 && r.chance(1, 2) {
            // (RouterProxy::new unwraps the creation of its channel and receiver set)
            sim::suspend_fd_faults(true);
            st.routers.push(RouterProxy::new());
            // let the router thread finish its own set-up (it runs until it waits in epoll)
            sim::sleep_ns(1000);
            sim::suspend_fd_faults(false);
            log.push("router new".into());
        } else if !st.routers.is_empty() && !st.receivers.is_empty() && r.chance(2, 3) {
            let i = r.below(st.receivers.len() as u64) as usize;
            let (c, rx) = st.receivers.remove(i);
            st.queued.insert(c, 0);
            st.routers[0].add_route(rx.to_opaque(), Box::new(|m| drop(m.to::<Msg>())));
            log.push(format!("route c{}", c));
        } else if !st.routers.is_empty() {
            let rt = st.routers.remove(0);
            if r.chance(1, 2) {
                rt.shutdown();
                log.push("router shutdown".into());
            } else {
                log.push("router dropped".into());
            }
            drop(rt);
        }
    }
}

impl Scenario for C11S {
    fn id(&self) -> &'static str {
        "C11"
    }
    fn variants(&self) -> &'static [&'static str] {
        &["os", "memfd"]
    }
    fn count(&self, tier: Tier, variant: &str) -> u64 {
        match (tier, variant) {
            (Tier::Quick, "os") => 16_000,
            (Tier::Quick, _) => 5000,
            (Tier::Thorough, "os") => 700_000,
            (Tier::Thorough, _) => 200_000,
        }
    }
    fn rule(&self) -> &'static str {
        "case = seeded sequence of <=400 public-API operations (create, clone, drop, send plain / embedded sender / embedded receiver / region, multi-packet sends (250..700 kB data part) with attachments to a drained channel and to receivers that are already gone, try_recv / try_recv_timeout / recv, receiver-set add / select with messages decoded or dropped undecoded, one-shot server new / connect+accept / drop unused, connect to a non-existent name, sends to closed receivers, shared memory from_bytes / from_byte / clone / drop incl. zero length, router new / add_route / shutdown / drop), repeated for 1..4 rounds inside one process, each round ending with every handle dropped in seeded order; EMFILE injected into socketpair / socket / accept / epoll_create1; the program closes stdin and spawns an unrelated child at seeded points; non-trivial = >=30 operations executed; distinct = distinct (sequence, fault list)"
    }
    fn gen(&self, seed: u64, idx: u64, tier: Tier, _variant: &str) -> Value {
        let mut r = Rng::stream(seed, idx.wrapping_mul(2654435761).wrapping_add(0xC11));
        let mut sim = sim_json(&mut r, seed ^ idx.wrapping_mul(0x9E37));
        sim["sndbuf"] = Value::Null;
        sim["policy"] = json!({"kind": "sticky", "pct": 90});
        let mut faults = gen_env_faults(&mut r, 600);
        for _ in 0..r.below(4) {
            faults.push(json!({"k": "fderr", "pid": 0, "nth": r.below(40), "errno": if r.chance(1, 2) { libc::EMFILE } else { libc::ENFILE },
                "call": *r.pick(&["socketpair", "socketpair", "socket", "accept", "epoll_create1"])}));
        }
        sim["faults"] = json!(faults);
        let nops = if r.chance(1, 6) { r.range(150, 400) } else { r.range(10, 120) };
        json!({"sim": sim, "pseed": r.next() >> 4, "nops": nops, "rounds": if tier == Tier::Thorough { r.range(1, 4) } else { r.range(1, 2) }})
    }
    fn died(&self, how: &str, text: &str) -> Option<Violation> {
        // every blocking call of the program is one that must return (e.g. receiving until the
        // channel of a dead process reports the end): the only thread blocking for ever means a
        // descriptor that should be gone is still open somewhere
        if how == "sim-abort" && text.contains("DEADLOCK") {
            let line = text.lines().find(|l| l.contains("'main'")).unwrap_or("").trim().to_string();
            return Some(Violation { sig: "never-disconnects:recv".into(), detail: format!("the program blocked for ever waiting for a channel to report disconnection although every sender had been dropped or had died: {}", line) });
        }
        None
    }
    fn post(&self, body: &Value) -> Option<Violation> {
        let l = body["tmp_leftovers"].as_array().map(|a| a.len()).unwrap_or(0);
        if l > 0 {
            return Some(Violation { sig: "temp-file-left:end".into(), detail: format!("after every handle was dropped {} entries remain in the temporary directory: {:?}", l, body["tmp_leftovers"]) });
        }
        None
    }
    fn run(&self, p: &Value) -> Outcome {
        let mut out = Outcome::default();
        start_sim(p);
        // warm up the library's lazily initialised statics, then take the baseline
        sim::suspend_fd_faults(true);
        drop(ipc::channel::<u32>());
        let _ = ipc_channel::platform::OsIpcSender::get_max_fragment_size();
        drop(IpcSharedMemory::from_bytes(&[1, 2, 3]));
        sim::suspend_fd_faults(false);
        let base_fds = list_fds();
        let base_maps = sim::g().stats.shared_maps;
        let mut r = Rng::new(p["pseed"].as_u64().unwrap_or(1));
        let nops = p["nops"].as_u64().unwrap_or(20).min(400);
        let rounds = p["rounds"].as_u64().unwrap_or(1).clamp(1, 6);
        let mut total_ops = 0u64;
        let mut all_log: Vec<String> = vec![];
        'rounds: for round in 0..rounds {
            let mut st = St { senders: vec![], receivers: vec![], queued: BTreeMap::new(), set: None, members: BTreeMap::new(), servers: vec![], regions: vec![], routers: vec![], next_c: 0, next_id: 1, victims: 0 };
            let mut log: Vec<String> = vec![];
            let (big_tx, big_rx) = match ipc::channel::<BigMsg>() {
                Ok(x) => x,
                Err(_) => continue,
            };
            let drainer = sim::spawn("drainer", None, move || while let Ok(m) = big_rx.recv() {
                drop(m);
            });
            for _ in 0..nops {
                one_op(&mut st, &mut r, &mut log, &big_tx);
                total_ops += 1;
                // every descriptor the library created or received must be close-on-exec
                let bad = not_cloexec();
                if let Some((fd, kind, via)) = bad.first() {
                    let how = match (*kind, *via) {
                        (_, 1) => "received in a message",
                        (sim::K_DUP, _) => "created with dup()",
                        (sim::K_SOCK, _) => "a socket (socketpair/socket/accept)",
                        (sim::K_SHM, _) => "a shared-memory descriptor",
                        (sim::K_EPOLL, _) => "an epoll descriptor",
                        _ => "other",
                    };
                    out.viol(&format!("not-cloexec:{}", how.split(' ').next().unwrap_or("fd")), format!("descriptor {} ({}) is open without FD_CLOEXEC after operation '{}': an unrelated child process spawned by the program would inherit it", fd, how, log.last().cloned().unwrap_or_default()));
                    all_log.extend(log);
                    break 'rounds;
                }
            }
            // drop everything in a seeded order
            let mut order: Vec<u32> = (0..7).collect();
            for i in (1..order.len()).rev() {
                order.swap(i, r.below(i as u64 + 1) as usize);
            }
            let St { senders, receivers, set, servers, regions, routers, .. } = st;
            let (mut senders, mut receivers, mut set, mut servers, mut regions, mut routers, mut big_tx) = (Some(senders), Some(receivers), Some(set), Some(servers), Some(regions), Some(routers), Some(big_tx));
            for o in order {
                match o {
                    0 => drop(senders.take()),
                    1 => drop(receivers.take()),
                    2 => drop(set.take()),
                    3 => drop(servers.take()),
                    4 => drop(regions.take()),
                    5 => {
                        if let Some(rs) = routers.take() {
                            for rt in rs {
                                rt.shutdown();
                            }
                        }
                    },
                    _ => drop(big_tx.take()),
                }
            }
            let _ = drainer.join();
            let blocked = sim::settle();
            for b in &blocked {
                if b.label.starts_with("lib@") {
                    out.viol("router-thread-remains:end", format!("a library thread is still waiting in {} after every handle was dropped", b.in_call));
                }
            }
            let now = list_fds();
            let extra: Vec<&i32> = now.iter().filter(|f| !base_fds.contains(f)).collect();
            let missing: Vec<&i32> = base_fds.iter().filter(|f| !now.contains(f) && **f != 0).collect();
            if !extra.is_empty() {
                let gl = sim::g();
                let kinds: Vec<String> = extra.iter().map(|f| format!("{}:{}", f, if gl.fds[**f as usize].open { format!("kind{} via{} lid{}", gl.fds[**f as usize].kind, gl.fds[**f as usize].via, gl.fds[**f as usize].lid) } else { "unknown".into() })).collect();
                out.viol("descriptor-leak:end", format!("round {}: {} descriptors are still open after every handle was dropped ({}); last operations: {}", round, extra.len(), kinds.join(", "), log.iter().rev().take(6).cloned().collect::<Vec<_>>().join(" <- ")));
            }
            if !missing.is_empty() {
                out.viol("foreign-close:end", format!("round {}: descriptors {:?} that the program held before are closed now (the library closed a descriptor it does not own)", round, missing));
            }
            let maps = sim::g().stats.shared_maps;
            if maps != base_maps {
                out.viol("mapping-leak:end", format!("round {}: {} shared mappings remain after every handle was dropped", round, maps - base_maps));
            }
            all_log.extend(log);
            if !out.violations.is_empty() {
                break;
            }
        }
        let st = &sim::g().stats;
        // the unrelated child spawned at a seeded instant (possibly in the middle of a library
        // operation on another thread) must not have inherited anything the library owns
        if st.inherited_fds > 0 {
            let k = &st.inherited_by_kind;
            out.viol("inherited-by-child:exec", format!("a child process spawned by the program inherited {} descriptor(s) of the library (sockets {}, listeners {}, shared memory {}, epoll {}, dup {}, received {}): they were open without FD_CLOEXEC at that instant", st.inherited_fds, k[sim::K_SOCK as usize], k[sim::K_LISTEN as usize], k[sim::K_SHM as usize], k[sim::K_EPOLL as usize], k[sim::K_DUP as usize], k[sim::K_RECEIVED as usize]));
        }
        if st.bad_close > 0 {
            out.viol("double-close:close", format!("close() failed {} times (EBADF): the library closed a descriptor twice or one it never had", st.bad_close));
        }
        for pn in hist::panics() {
            out.viol(&hist::panic_sig(pn), format!("panic in [{}]: {} at {}", pn.label, pn.msg, pn.loc));
        }
        out.nontrivial = total_ops >= 30;
        out.probe("operations", total_ops);
        out.probe("rounds", rounds);
        out.probe("failed_operations", all_log.iter().filter(|l| l.contains("failed") || l.contains("-> err")).count() as u64);
        out.probe("undecoded_drops", all_log.iter().filter(|l| l.contains("undecoded")).count() as u64);
        out.sample = json!({"operations": total_ops, "rounds": rounds, "first_ops": all_log.iter().take(14).collect::<Vec<_>>()});
        out
    }
}
