//! C12 — a sender crashing mid-send cannot corrupt a message or falsely close a channel.
//! Fault enumeration: the victim sim-process is crashed before its k-th system call of the send,
//! for every k, crossed with message shapes, observers and seeded schedules.
use super::util::{predict_frag, spawn_process};
use super::*;
use crate::hist;
use ipc_channel::ipc::{self, IpcError, IpcReceiver, IpcReceiverSet, IpcSelectionResult, IpcSender, IpcSharedMemory, TryRecvError};
use ipc_channel::router::RouterProxy;
use serde::{Deserialize, Serialize};

pub struct C12S;
pub static C12: C12S = C12S;

#[derive(Serialize, Deserialize)]
pub struct M12 {
    pub data: Vec<u8>,
    pub att: Vec<IpcSender<u32>>,
    pub regs: Vec<IpcSharedMemory>,
}
const PACKETS: [u64; 6] = [1, 2, 3, 4, 5, 6];
const OBS: [&str; 4] = ["recv", "try", "set", "router"];
pub const KMAX: u64 = 18;
// packets(6) x att(2) x survivor(2) x observer(4) x prior(2) x crash point(KMAX+1; the last = clean exit)
const BASE: u64 = 6 * 2 * 2 * 4 * 2 * (KMAX + 1);

fn log_delivery(m: &M12) {
    match check_payload(&m.data) {
        Ok((_c, s, q)) => {
            hist::log("deliver", s as i64, q as i64, m.data.len() as i64, "");
            // each message must arrive with exactly its own attachments
            let want_regs: Vec<Vec<u8>> = if s == 2 { vec![vec![q as u8 + 1; 100]] } else if q == 100 && !m.regs.is_empty() { vec![vec![7u8; 3000]] } else { vec![] };
            let got_ok = if s == 1 && q == 100 { m.regs.len() <= 1 && m.regs.iter().all(|g| &g[..] == &[7u8; 3000][..]) } else { m.regs.len() == want_regs.len() && m.regs.iter().zip(want_regs.iter()).all(|(g, w)| &g[..] == &w[..]) };
            if !got_ok {
                hist::log("attachment.bad", s as i64, q as i64, m.regs.len() as i64, &format!("{} regions of lengths {:?}", m.regs.len(), m.regs.iter().map(|g| g.len()).collect::<Vec<_>>()));
            }
            if s == 1 && q == 100 {
                // the victim's message: what it carried is judged against what the case attached
                for a in m.att.iter() {
                    let _ = a.send(777);
                }
                hist::log("victim.delivered", m.att.len() as i64, m.regs.len() as i64, 0, "");
            }
            if s != 1 && !m.att.is_empty() {
                hist::log("attachment.bad", s as i64, q as i64, m.att.len() as i64, "unexpected endpoint attached");
            }
        },
        Err(e) => {
            hist::log("deliver.bad", m.data.len() as i64, 0, 0, &e);
        },
    };
}

impl Scenario for C12S {
    fn id(&self) -> &'static str {
        "C12"
    }
    fn variants(&self) -> &'static [&'static str] {
        &["os"]
    }
    fn exhaustive(&self) -> bool {
        true
    }
    fn count(&self, tier: Tier, _variant: &str) -> u64 {
        match tier {
            Tier::Quick => BASE * 12,
            Tier::Thorough => BASE * 600,
        }
    }
    fn rule(&self) -> &'static str {
        "exhaustive enumeration of crash points: case = (victim sim-process crashed before its k-th system call of the send, k = 0..17, or right after the send, or clean exit) x (message of 1..6 packets) x (no attachments | sender + region attached) x (0 | 1 surviving sender handle in another sim-process that keeps sending) x (observer: blocking recv, try_recv polling, receiver set, router) x (0 | 2 completed messages before), each under 12 (quick) / 600 (thorough) seeded schedules of victim, survivor, reaper and observer; non-trivial = the victim died inside the send (after its first and before its last system call); distinct = distinct (case, schedule hash)"
    }
    fn gen(&self, seed: u64, idx: u64, _tier: Tier, _variant: &str) -> Value {
        let rep = idx / BASE;
        let mut i = idx % BASE;
        let k = i % (KMAX + 1);
        i /= KMAX + 1;
        let packets = PACKETS[(i % 6) as usize];
        i /= 6;
        let att = i % 2 == 1;
        i /= 2;
        let survivor = i % 2 == 1;
        i /= 2;
        let obs = OBS[(i % 4) as usize];
        i /= 4;
        let prior = if i % 2 == 1 { 2 } else { 0 };
        let mut r = Rng::stream(seed, idx.wrapping_mul(2654435761).wrapping_add(0xC12));
        let mut sim = sim_json(&mut r, seed ^ idx.wrapping_mul(0x9E37));
        sim["sndbuf"] = json!(2304);
        if rep == 0 {
            sim["policy"] = json!({"kind": "sticky", "pct": 70});
        }
        let (first, follow) = predict_frag(Some(2304), false);
        let len = if packets == 1 { 600 } else { first + (packets as usize - 2) * follow + 300 };
        json!({"sim": sim, "packets": packets, "len": len, "att": att, "survivor": survivor, "observer": obs, "prior": prior,
               "crash_at": if k == KMAX { Value::Null } else { json!(k) }, "clean_exit": k == KMAX && rep % 2 == 1})
    }
    fn run(&self, p: &Value) -> Outcome {
        let mut out = Outcome::default();
        start_sim(p);
        let len = p["len"].as_u64().unwrap_or(600).min(1 << 20) as usize;
        let with_att = p["att"].as_bool().unwrap_or(false);
        let survivor = p["survivor"].as_bool().unwrap_or(false);
        let obs = p["observer"].as_str().unwrap_or("recv").to_string();
        let prior = p["prior"].as_u64().unwrap_or(0).min(4) as u32;
        let crash_at = p["crash_at"].as_u64();
        let clean_exit = p["clean_exit"].as_bool().unwrap_or(false);
        let (tx, rx) = ipc::channel::<M12>().unwrap();
        // observer (sim-process 0)
        let mut _keep = None;
        match obs.as_str() {
            "set" => {
                sim::spawn("observer", None, move || {
                    let mut set = IpcReceiverSet::new().unwrap();
                    let id = set.add(rx).unwrap();
                    loop {
                        let rs = match set.select() {
                            Ok(r) => r,
                            Err(e) => {
                                hist::log("obs.err", 0, 0, 0, &e.to_string());
                                return;
                            },
                        };
                        for r in rs {
                            match r {
                                IpcSelectionResult::MessageReceived(i, m) => {
                                    if i != id {
                                        hist::log("deliver.bad", 0, 0, 0, "wrong id");
                                    }
                                    match m.to::<M12>() {
                                        Ok(m) => log_delivery(&m),
                                        Err(e) => {
                                            hist::log("deliver.bad", 0, 0, 0, &format!("decode {}", e));
                                        },
                                    }
                                },
                                IpcSelectionResult::ChannelClosed(_) => {
                                    hist::log("obs.closed", 0, 0, 0, "");
                                    return;
                                },
                            }
                        }
                    }
                });
            },
            "router" => {
                struct Guard;
                impl Drop for Guard {
                    fn drop(&mut self) {
                        hist::log("obs.closed", 0, 0, 0, "handler dropped");
                    }
                }
                let router = RouterProxy::new();
                let g = Guard;
                router.add_route(
                    rx.to_opaque(),
                    Box::new(move |m| {
                        let _g = &g;
                        match m.to::<M12>() {
                            Ok(m) => log_delivery(&m),
                            Err(e) => {
                                hist::log("deliver.bad", 0, 0, 0, &format!("decode {}", e));
                            },
                        }
                    }),
                );
                _keep = Some(router);
            },
            mode => {
                let polling = mode == "try";
                sim::spawn("observer", None, move || {
                    let mut closed = 0;
                    let mut empties = 0;
                    loop {
                        let r: Result<M12, TryRecvError> = if polling { rx.try_recv() } else { rx.recv().map_err(TryRecvError::IpcError) };
                        match r {
                            Ok(m) => {
                                empties = 0;
                                log_delivery(&m)
                            },
                            Err(TryRecvError::Empty) => {
                                empties += 1;
                                hist::log("obs.empty", empties, 0, 0, "");
                                if empties > 60 {
                                    hist::log("obs.gaveup", 0, 0, 0, "");
                                    std::mem::forget(rx);
                                    return;
                                }
                                sim::sleep_ns(100_000);
                            },
                            Err(TryRecvError::IpcError(IpcError::Disconnected)) => {
                                hist::log("obs.closed", closed, 0, 0, "");
                                closed += 1;
                                // keep listening: a plain receiver can still be used after a (false) disconnect
                                if closed >= 3 {
                                    return;
                                }
                                sim::sleep_ns(100_000);
                            },
                            Err(e) => {
                                hist::log("obs.err", 0, 0, 0, &format!("{:?}", e));
                                return;
                            },
                        }
                    }
                });
            },
        }
        // victim (sim-process 1)
        let (side_tx, side_rx) = ipc::channel::<u32>().unwrap();
        spawn_process("victim", 1, (tx.clone(), side_tx), move |(tx, side): (IpcSender<M12>, IpcSender<u32>)| {
            for q in 0..prior {
                let d = make_payload(12, 1, q, if q % 2 == 0 { 200 } else { 6000 });
                hist::log("send.inv", 1, q as i64, 0, "");
                let r = tx.send(M12 { data: d, att: vec![], regs: vec![] });
                hist::log(if r.is_ok() { "send.ok" } else { "send.err" }, 1, q as i64, 0, "");
            }
            let d = make_payload(12, 1, 100, len);
            let (att, regs) = if with_att { (vec![side.clone()], vec![IpcSharedMemory::from_bytes(&[7u8; 3000])]) } else { (vec![], vec![]) };
            let msg = M12 { data: d, att, regs };
            hist::log("send.inv", 1, 100, 0, "victim");
            if let Some(k) = crash_at {
                sim::arm_crash(1, k);
            }
            let r = tx.send(msg);
            sim::disarm_crash(1);
            hist::log(if r.is_ok() { "send.ok" } else { "send.err" }, 1, 100, sim::seam_calls_since_arm(1) as i64, "victim");
            if clean_exit {
                drop(tx);
                drop(side);
                hist::log("victim.exit", 0, 0, 0, "");
            } else {
                sim::crash_now();
            }
        });
        // survivor (sim-process 2)
        if survivor {
            spawn_process("survivor", 2, tx.clone(), move |tx: IpcSender<M12>| {
                let mut q = 0;
                let mut send = |len: usize| {
                    let d = make_payload(12, 2, q, len);
                    hist::log("send.inv", 2, q as i64, 0, "");
                    let r = tx.send(M12 { data: d, att: vec![], regs: vec![IpcSharedMemory::from_bytes(&[q as u8 + 1; 100])] });
                    match r {
                        Ok(()) => hist::log("send.ok", 2, q as i64, 0, ""),
                        Err(e) => hist::log("send.err", 2, q as i64, 0, &e.to_string()),
                    };
                    q += 1;
                };
                send(100);
                // wait until the victim is dead (or has left), then keep using the channel
                let mut n = 0;
                while !sim::crashed(1) && !hist::events().iter().any(|e| e.op == "victim.exit") && n < 200 {
                    sim::sleep_ns(50_000);
                    n += 1;
                }
                send(300);
                send(7000);
                sim::sleep_ns(200_000);
                send(50);
                hist::log("drop.inv", 2, 0, 0, "");
                drop(tx);
                hist::log("drop.ret", 2, 0, 0, "");
            });
        }
        hist::log("drop.inv", 0, 0, 0, "");
        drop(tx);
        hist::log("drop.ret", 0, 0, 0, "");
        let blocked = sim::settle();

        // ------------------------------------------------------------ oracle
        let evs = hist::events();
        let mut sends: Vec<(i64, i64, u64, Option<u64>, bool, String)> = vec![]; // sender, seq, inv, ret, ok
        let mut delivered: Vec<(i64, i64, u64)> = vec![];
        for e in evs {
            match e.op {
                "send.inv" => sends.push((e.a, e.b, e.seq, None, false, String::new())),
                "send.ok" | "send.err" => {
                    if let Some(s) = sends.iter_mut().find(|s| s.0 == e.a && s.1 == e.b) {
                        s.3 = Some(e.seq);
                        s.4 = e.op == "send.ok";
                        s.5 = e.s.clone();
                    }
                },
                "deliver" => {
                    if delivered.iter().any(|d| d.0 == e.a && d.1 == e.b) {
                        out.viol("duplicate:recv", format!("message ({},{}) delivered twice", e.a, e.b));
                    }
                    delivered.push((e.a, e.b, e.seq));
                },
                "attachment.bad" => out.viol("foreign-attachment:recv", format!("message ({},{}) arrived with attachments that are not its own: {}", e.a, e.b, e.s)),
                "deliver.bad" => out.viol("corrupt-message:recv", format!("a shortened or mixed payload was presented as a complete message: {}", e.s)),
                "obs.err" => out.viol("recv-error:recv", format!("observer failed: {}", e.s)),
                _ => {},
            }
        }
        let crash_seq = evs.iter().find(|e| e.op == "crash" && e.a == 1).map(|e| e.seq);
        let reaped_seq = evs.iter().find(|e| e.op == "crash.reaped" && e.a == 1).map(|e| e.seq);
        let victim_ret = sends.iter().find(|s| s.0 == 1 && s.1 == 100).and_then(|s| s.3);
        let died_inside = crash_seq.is_some() && victim_ret.is_none();
        // every message whose send returned Ok is delivered (survivor and victim alike) ...
        let survivor_dropped = evs.iter().find(|e| e.op == "drop.ret" && e.a == 2).map(|e| e.seq);
        let main_dropped = evs.iter().find(|e| e.op == "drop.ret" && e.a == 0).map(|e| e.seq).unwrap_or(u64::MAX);
        let all_gone_certainly_before = |t: u64| -> bool {
            let victim_gone = reaped_seq.map(|r| r < t).unwrap_or(false) || evs.iter().any(|e| e.op == "victim.exit" && e.seq < t);
            let surv_gone = !survivor || survivor_dropped.map(|d| d < t).unwrap_or(false);
            victim_gone && surv_gone && main_dropped < t
        };
        let someone_certainly_alive_at = |t: u64| -> bool {
            // main's handle, or the survivor's (alive until its drop is invoked)
            let surv_alive = survivor && evs.iter().find(|e| e.op == "drop.inv" && e.a == 2).map(|e| e.seq > t).unwrap_or(true);
            let victim_alive = crash_seq.map(|c| c > t).unwrap_or(true) && !evs.iter().any(|e| e.op == "victim.exit" && e.seq < t) && !clean_exit;
            let main_alive = evs.iter().find(|e| e.op == "drop.inv" && e.a == 0).map(|e| e.seq > t).unwrap_or(true);
            surv_alive || victim_alive || main_alive
        };
        let observer_gone = evs.iter().filter(|e| e.op == "obs.closed").count() >= if obs == "recv" || obs == "try" { 3 } else { 1 };
        for e in evs.iter().filter(|e| e.op == "obs.closed") {
            if someone_certainly_alive_at(e.seq) {
                out.viol(
                    &format!("false-disconnect:{}", obs),
                    format!("observer ({}) was told 'disconnected' at #{} while another sender handle certainly survived (victim died inside send: {}, crash point {:?})", obs, e.seq, died_inside, crash_at),
                );
            }
        }
        // consequences of a false disconnect (member removed from the set, handler dropped, later
        // sends failing with EPIPE) are that finding's symptoms, not separate ones
        let false_disc: Option<u64> = evs.iter().filter(|e| e.op == "obs.closed" && someone_certainly_alive_at(e.seq)).map(|e| e.seq).min();
        for s in &sends {
            if false_disc.is_some() && (obs == "set" || obs == "router") {
                continue;
            }
            if s.4 && !delivered.iter().any(|d| d.0 == s.0 && d.1 == s.1) {
                out.viol(
                    &format!("lost:{}", if s.0 == 2 { "survivor-send-ok" } else { "send-ok" }),
                    format!("send ({},{}) returned Ok but was never delivered (observer {}, observer gone: {})", s.0, s.1, obs, observer_gone),
                );
            }
            if s.0 == 2 && s.3.is_some() && !s.4 {
                out.viol("survivor-send-failed:send", format!("the surviving sender's send #{} failed ({}) although the receiver exists", s.1, s.5));
            }
        }
        // the victim's message, if delivered, arrives with exactly what was attached to it
        if let Some(v) = evs.iter().find(|e| e.op == "victim.delivered") {
            let want = if with_att { (1, 1) } else { (0, 0) };
            if (v.a, v.b) != want {
                out.viol("attachments-lost:recv", format!("the victim's message was delivered with {} endpoint(s) and {} region(s); it was sent with {} and {} (crash point {:?})", v.a, v.b, want.0, want.1, crash_at));
            } else if with_att && !blocked.iter().any(|b| b.label == "observer") {
                match side_rx.try_recv() {
                    Ok(777) => {},
                    other => out.viol("attachment-misassigned:recv", format!("the endpoint delivered with the victim's message is not the attached one (probe through it arrived as {:?})", other.ok())),
                }
            }
        }
        std::mem::forget(side_rx);
        // order per sender
        for snd in [1i64, 2] {
            let seqs: Vec<i64> = delivered.iter().filter(|d| d.0 == snd).map(|d| d.1).collect();
            if seqs.windows(2).any(|w| w[0] > w[1]) {
                out.viol("order:recv", format!("messages of sender {} delivered out of order: {:?}", snd, seqs));
            }
        }
        // a poll that began after every sender handle was certainly gone (it began after the previous
        // poll's answer was logged) must not answer "empty": there is nothing left to wait for
        {
            let empt: Vec<&hist::Ev> = evs.iter().filter(|e| e.op == "obs.empty").collect();
            for w in empt.windows(2) {
                if w[1].a == w[0].a + 1 && all_gone_certainly_before(w[0].seq) {
                    out.viol("empty-when-disconnected:try", format!("try_recv answered 'empty' (#{}) although every sender handle had certainly ceased to exist before the call began (#{}); crash point {:?}", w[1].seq, w[0].seq, crash_at));
                    break;
                }
            }
        }
        // the receiver does not wait for ever
        for b in &blocked {
            if b.label == "observer" || (obs == "router" && b.label.starts_with("lib@")) {
                let last = evs.last().map(|e| e.seq + 1).unwrap_or(0);
                let pending = sends.iter().any(|s| s.4 && !delivered.iter().any(|d| d.0 == s.0 && d.1 == s.1));
                if obs != "router" && all_gone_certainly_before(last) && !evs.iter().any(|e| e.op == "obs.closed") {
                    out.viol(&format!("hang:{}", obs), format!("observer blocked forever in {} although every sender handle is gone", b.in_call));
                }
                if pending && !out.violations.iter().any(|v| v.sig.starts_with("lost")) && !(false_disc.is_some() && (obs == "set" || obs == "router")) {
                    out.viol(&format!("hang-with-message:{}", obs), format!("observer blocked forever in {} with a completely sent message undelivered", b.in_call));
                }
                // blocked in the middle of a message (waiting for a fragment that will never come)
                if b.in_call == "recv" {
                    out.viol(&format!("hang-mid-message:{}", obs), format!("observer blocked forever waiting for a follow-up fragment of an interrupted message (crash point {:?})", crash_at));
                }
            }
            if b.label == "survivor" {
                out.viol("hang:survivor-send", format!("surviving sender blocked forever in {}", b.in_call));
            }
        }
        if obs == "router" && all_gone_certainly_before(u64::MAX) && !evs.iter().any(|e| e.op == "obs.closed") {
            out.viol("handler-not-dropped:router", "every sender is gone but the routed handler was never dropped".into());
        }
        if obs != "router" && !blocked.iter().any(|b| b.label == "observer") && !evs.iter().any(|e| e.op == "obs.closed" || e.op == "obs.gaveup" || e.op == "obs.err") {
            out.viol("observer-died:recv", "the observer died without a result (panic in the receive path)".into());
        }
        // whatever came with an interrupted message must have been released by the time the
        // observer is through (it drops every message it gets)
        if obs != "router" && !blocked.iter().any(|b| b.label == "observer") {
            let gl = sim::g();
            let stray: Vec<i64> = (0..sim::MAXFD).filter(|&i| gl.fds[i].open && gl.fds[i].via == 1 && gl.fds[i].owner == 0).map(|i| gl.fds[i].lid as i64).collect();
            if !stray.is_empty() {
                out.viol("attachment-leak:recv", format!("{} descriptor(s) received with messages are still open in the receiving process after it dropped every message (victim died inside send: {}, crash point {:?})", stray.len(), died_inside, crash_at));
            }
        }
        for pn in hist::panics() {
            out.viol(&hist::panic_sig(pn), format!("panic in [{}]: {} at {}", pn.label, pn.msg, pn.loc));
        }
        let calls = evs.iter().find(|e| e.op == "send.ok" && e.s == "victim").map(|e| e.c).unwrap_or(-1);
        out.nontrivial = died_inside && crash_at.map(|k| k > 0).unwrap_or(false);
        out.probe("died_inside_send", died_inside as u64);
        out.probe("died_after_send", (crash_seq.is_some() && victim_ret.is_some()) as u64);
        out.probe("interrupted_message_delivered_whole", (died_inside && delivered.iter().any(|d| d.0 == 1 && d.1 == 100)) as u64);
        out.probe("interrupted_message_absent", (died_inside && !delivered.iter().any(|d| d.0 == 1 && d.1 == 100)) as u64);
        if calls >= 0 {
            out.probe(&format!("send_syscalls_{:02}", calls), 1);
        }
        out.sample = json!({"packets": p["packets"], "attachments": with_att, "survivor": survivor, "observer": obs, "prior": prior, "crash_at": crash_at, "died_inside_send": died_inside, "delivered": delivered.len()});
        out
    }
}
