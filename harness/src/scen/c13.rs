//! C13 — transient buffer exhaustion (ENOBUFS) during send is absorbed or reported, never damaging.
//! Fault enumeration: every subset of the first 10 transmission attempts of one send is refused.
use super::util::predict_frag;
use super::*;
use crate::hist;
use ipc_channel::ipc::{self, IpcError, IpcReceiver, IpcSender, IpcSharedMemory};
use serde::{Deserialize, Serialize};

pub struct C13S;
pub static C13: C13S = C13S;

#[derive(Serialize, Deserialize)]
pub struct M13 {
    pub tag: u32,
    pub data: Vec<u8>,
    pub att: Vec<IpcSender<u32>>,
    pub regs: Vec<IpcSharedMemory>,
}
const SHAPES: [&str; 5] = ["small<=2000", "one-packet>2000", "2-packets", "3-packets", "6-packets"];
const BUFS: [u64; 2] = [2304, 8192];
/// per pass, after the rectangular enumeration: 5 shapes x 2 buffers x 16 patterns over the first 4
/// attempts x {62, 63, 64} descriptors in total (platform level) - the capacity edge, where the
/// fall-back to a fragmented send needs one descriptor more than the first attempt did
const EXTRA: u64 = 5 * 2 * 16 * 3;

fn shape_len(shape: usize, first: usize, follow: usize) -> usize {
    match shape {
        0 => 1500,
        1 => first - 160,
        2 => first + 500,
        3 => first + follow + 500,
        _ => first + 4 * follow + 500,
    }
}

/// The same send at the platform level: data + 2 channel descriptors + 1 region, exact lists compared.
fn platform_run(len: usize, nchan: usize, base_fds: Option<Vec<i32>>, out: &mut Outcome) -> Outcome {
    use ipc_channel::platform::{self, OsIpcChannel, OsIpcSharedMemory};
    let (tx, rx) = platform::channel().unwrap();
    let region_bytes: Vec<u8> = (0..5000u32).map(|i| (i * 7 + 3) as u8).collect();
    let data = make_payload(13, 0, 0, len);
    let sent = data.clone();
    let rb = region_bytes.clone();
    // the attached channels: their sending ends travel, their receiving ends go to the receiving
    // thread, which probes every arrived descriptor for being the attached one in that position
    let mut chans = vec![];
    let mut keep = vec![];
    for _ in 0..nchan {
        let (t, r) = platform::channel().unwrap();
        chans.push(OsIpcChannel::Sender(t));
        keep.push(r);
    }
    sim::spawn("sender", Some(2), move || {
        hist::log("send.inv", 0, data.len() as i64, nchan as i64, "");
        let r = tx.send(&data, chans, vec![OsIpcSharedMemory::from_bytes(&rb)]);
        let fired = sim::g().stats.f_enobufs;
        sim::clear_faults();
        match r {
            Ok(()) => hist::log("send.ok", 0, fired as i64, 0, ""),
            Err(e) => hist::log("send.err", 0, fired as i64, 0, &e.to_string()),
        };
        let r2 = tx.send(&make_payload(13, 0, 1, 64), vec![], vec![]);
        hist::log(if r2.is_ok() { "follow.ok" } else { "follow.err" }, 0, 0, 0, "");
        drop(tx);
    });
    sim::spawn("receiver", None, move || {
        let mut tries = 0;
        loop {
            match rx.recv() {
                Ok((d, mut ch, rg)) => {
                    let tag = check_payload(&d).map(|t| t.2 as i64).unwrap_or(-1);
                    let regs_ok = rg.iter().all(|g| &g[..] == &region_bytes[..]);
                    hist::log("deliver", tag, d.len() as i64, ((ch.len() as i64) << 8) | rg.len() as i64, if regs_ok { "" } else { "REGION-DIFFERS" });
                    if tag == 0 {
                        let mut bad = 0;
                        for (i, c) in ch.iter_mut().enumerate() {
                            let s = c.to_sender();
                            let _ = s.send(&[i as u8, 0x5a], vec![], vec![]);
                            match keep.get(i).map(|k| k.try_recv()) {
                                Some(Ok((d, _, _))) if d == [i as u8, 0x5a] => {},
                                _ => bad += 1,
                            }
                        }
                        if bad > 0 {
                            hist::log("identity.bad", bad, ch.len() as i64, 0, "");
                        }
                    } else {
                        for c in ch.iter_mut() {
                            drop(c.to_sender());
                        }
                    }
                    if tag == 1 {
                        break;
                    }
                },
                Err(e) => {
                    hist::log("recv.end", 0, 0, 0, &e.to_string());
                    tries += 1;
                    if tries > 3 {
                        break;
                    }
                },
            }
        }
        hist::log("receiver.done", 0, 0, 0, "");
    });
    let blocked = sim::settle();
    let evs = hist::events();
    let ok = evs.iter().find(|e| e.op == "send.ok");
    let err = evs.iter().find(|e| e.op == "send.err");
    let fired = ok.or(err).map(|e| e.b).unwrap_or(0);
    let d0: Vec<&hist::Ev> = evs.iter().filter(|e| e.op == "deliver" && e.a == 0).collect();
    if ok.is_some() {
        if d0.len() != 1 {
            out.viol(if d0.is_empty() { "lost:send-ok" } else { "duplicate:recv" }, format!("platform level: send returned Ok after {} refused attempts, message delivered {} times", fired, d0.len()));
        } else {
            let e = d0[0];
            if e.b as usize != sent.len() {
                out.viol("shortened:recv", format!("platform level: sent {} bytes, received {}", sent.len(), e.b));
            }
            if e.c != ((nchan as i64) << 8) | 1 {
                out.viol("descriptor-list-altered:recv", format!("platform level: sent {} channels + 1 region, received {} channels + {} regions ({} refusals fired)", nchan, e.c >> 8, e.c & 0xff, fired));
            }
            if let Some(b) = evs.iter().find(|e| e.op == "identity.bad") {
                out.viol("descriptor-list-altered:recv", format!("platform level: {} of the {} received channel descriptors are not the attached channel of that position ({} refusals fired)", b.a, b.b, fired));
            }
            if e.s == "REGION-DIFFERS" {
                out.viol("altered:recv", "platform level: region contents differ".into());
            }
        }
    } else if err.is_some() && !d0.is_empty() {
        out.viol("delivered-after-error:recv", "platform level: send reported an error but the message was delivered".into());
    }
    if evs.iter().any(|e| e.op == "follow.err") {
        out.viol("channel-broken:send", "platform level: the follow-on message could not be sent".into());
    }
    if !evs.iter().any(|e| e.op == "deliver" && e.a == 1) && !blocked.iter().any(|b| b.label == "sender") {
        out.viol("follow-on-lost:recv", "platform level: the follow-on message was not delivered".into());
    }
    for b in &blocked {
        if b.label == "sender" || b.label == "receiver" {
            out.viol(&format!("hang:{}", if b.label == "sender" { "send" } else { "recv" }), format!("platform level: {} blocked forever in {}", b.label, b.in_call));
        }
    }
    let st = &sim::g().stats;
    if st.p_trunc > 0 || st.p_ctrunc > 0 {
        out.viol("oversized-retry:send", format!("a transmitted packet did not fit the buffer the receiver offers (MSG_TRUNC {} / MSG_CTRUNC {})", st.p_trunc, st.p_ctrunc));
    }
    if let (Some(base), true) = (&base_fds, blocked.is_empty()) {
        let extra = super::util::fds_beyond(base);
        if !extra.is_empty() {
            out.viol("descriptor-leak:end", format!("platform level: {} descriptor(s) remain open after the send ({} refusals fired, {}) and every handle was dropped: {}", extra.len(), fired, if ok.is_some() { "Ok" } else { "Err" }, extra.join(", ")));
        }
    }
    for pn in hist::panics() {
        out.viol(&hist::panic_sig(pn), format!("panic in [{}]: {} at {}", pn.label, pn.msg, pn.loc));
    }
    out.nontrivial = fired > 0;
    out.probe("refusals_fired", fired as u64);
    out.probe("send_ok", ok.is_some() as u64);
    out.probe("send_err", err.is_some() as u64);
    out.probe("platform_level_cases", 1);
    out.probe("at_capacity_cases", (nchan > 2) as u64);
    out.sample = json!({"level": "platform", "len": len, "channels": nchan, "refusals_fired": fired, "send_ok": ok.is_some()});
    std::mem::take(out)
}

impl Scenario for C13S {
    fn id(&self) -> &'static str {
        "C13"
    }
    fn variants(&self) -> &'static [&'static str] {
        &["os"]
    }
    fn exhaustive(&self) -> bool {
        true
    }
    fn count(&self, tier: Tier, _variant: &str) -> u64 {
        // 5 shapes x 3 attachment modes x 2 buffer sizes x 1024 ENOBUFS patterns (x schedules)
        let base = 5 * 3 * 2 * 1024 + EXTRA;
        match tier {
            Tier::Quick => base * 4,
            Tier::Thorough => base * 160,
        }
    }
    fn rule(&self) -> &'static str {
        "exhaustive enumeration: case i = (ENOBUFS pattern = every subset of the first 10 transmission attempts of one send) x (shape: <=2000 B one packet, >2000 B one packet, 2, 3, 6 packets) x (no attachments | 2 senders + 1 region through the typed API | the same through the platform-level API, where the exact descriptor list is compared) x (SO_SNDBUF request 2304 | 8192), plus the capacity edge (every pattern over the first 4 attempts x shape x buffer x 62 | 63 | 64 descriptors in total, platform level); quick runs the whole enumeration under 4, thorough under 160 different seeded receiver/sender schedules, every second pass with a third thread that keeps opening and closing channels (descriptor numbers are recycled under the sender's feet); non-trivial = at least one refusal actually fired inside the send under test; distinct = distinct (pattern, shape, attachments, buffer, schedule hash)"
    }
    fn gen(&self, seed: u64, idx: u64, _tier: Tier, _variant: &str) -> Value {
        let base = 5 * 3 * 2 * 1024u64;
        let rep = idx / (base + EXTRA);
        let i = idx % (base + EXTRA);
        if i >= base {
            let j = i - base;
            let (mask, shape, buf, nchan) = (j % 16, (j / 16) % 5, BUFS[((j / 80) % 2) as usize], 61 + (j / 160) % 3);
            let mut r = Rng::stream(seed, idx.wrapping_mul(2654435761).wrapping_add(0xC13));
            let mut sim = sim_json(&mut r, seed ^ idx.wrapping_mul(0x9E37));
            sim["sndbuf"] = json!(buf);
            let faults: Vec<Value> = (0..4).filter(|b| mask >> b & 1 == 1).map(|b| json!({"k": "txerr", "pid": 2, "nth": b, "errno": libc::ENOBUFS})).collect();
            sim["faults"] = json!(faults);
            let (first, follow) = predict_frag(Some(buf), false);
            return json!({"sim": sim, "shape": shape, "len": shape_len(shape as usize, first, follow), "att": true, "platform": true, "nchan": nchan, "mask": mask, "noise": rep % 2 == 1});
        }
        let mask = i % 1024;
        let shape = (i / 1024) % 5;
        // attachments: 0 = none, 1 = senders + region through the typed API, 2 = the same at the
        // platform level (OsIpcSender::send), where the exact descriptor list is visible
        let att_mode = (i / 5120) % 3;
        let att = att_mode >= 1;
        let buf = BUFS[((i / 15360) % 2) as usize];
        let mut r = Rng::stream(seed, idx.wrapping_mul(2654435761).wrapping_add(0xC13));
        let mut sim = sim_json(&mut r, seed ^ idx.wrapping_mul(0x9E37));
        sim["sndbuf"] = json!(buf);
        if rep == 0 {
            sim["policy"] = json!({"kind": "sticky", "pct": 80});
        }
        let faults: Vec<Value> = (0..10).filter(|b| mask >> b & 1 == 1).map(|b| json!({"k": "txerr", "pid": 2, "nth": b, "errno": libc::ENOBUFS})).collect();
        sim["faults"] = json!(faults);
        let (first, follow) = predict_frag(Some(buf), false);
        json!({"sim": sim, "shape": shape, "len": shape_len(shape as usize, first, follow), "att": att, "platform": att_mode == 2, "mask": mask, "noise": rep % 2 == 1})
    }
    fn died(&self, how: &str, _p: &str) -> Option<Violation> {
        if how == "step-budget" {
            return Some(Violation { sig: "livelock:send".into(), detail: "the run exceeded its step budget: send keeps retrying for ever instead of completing or returning an error".into() });
        }
        None
    }
    fn run(&self, p: &Value) -> Outcome {
        let mut out = Outcome::default();
        start_sim(p);
        let len = p["len"].as_u64().unwrap_or(100).min(1 << 20) as usize;
        let with_att = p["att"].as_bool().unwrap_or(false);
        let noise = p["noise"].as_bool().unwrap_or(false);
        let base_fds = super::util::fd_baseline();
        if p["noise"].as_bool().unwrap_or(false) {
            // another thread of the program opens and closes descriptors all the while: a retry that
            // names a descriptor number it no longer owns picks up one of these
            sim::spawn("noise", None, move || {
                let mut held = vec![];
                for i in 0..25 {
                    let c = ipc::channel::<u32>().unwrap();
                    sim::yield_now();
                    // some are closed again at once, some stay open for the rest of the run (whoever
                    // wrongly adopts one of those waits on it for ever)
                    if i % 3 == 0 {
                        drop(c);
                    } else {
                        held.push(c);
                    }
                }
                std::mem::forget(held);
            });
        }
        if p["platform"].as_bool().unwrap_or(false) {
            return platform_run(len, p["nchan"].as_u64().unwrap_or(2).min(80) as usize, if noise { None } else { Some(base_fds) }, &mut out);
        }
        let (tx, rx) = ipc::channel::<M13>().unwrap();
        let mut sides: Vec<IpcReceiver<u32>> = vec![];
        let mut att = vec![];
        let mut regs = vec![];
        let region_bytes: Vec<u8> = (0..5000u32).map(|i| (i * 7 + 3) as u8).collect();
        if with_att {
            for _ in 0..2 {
                let (s, r) = ipc::channel::<u32>().unwrap();
                att.push(s);
                sides.push(r);
            }
            regs.push(IpcSharedMemory::from_bytes(&region_bytes));
        }
        let data = make_payload(13, 0, 0, len);
        let sent_data = data.clone();
        // sender: its own sim-process id so that transmission attempts are counted for it alone
        sim::spawn("sender", Some(2), move || {
            hist::log("send.inv", 0, data.len() as i64, att.len() as i64, "");
            let r = tx.send(M13 { tag: 1, data, att, regs });
            let fired = sim::g().stats.f_enobufs;
            let attempts = sim::tx_attempts_of(2);
            sim::clear_faults();
            match r {
                Ok(()) => hist::log("send.ok", 0, fired as i64, attempts as i64, ""),
                Err(e) => hist::log("send.err", 0, fired as i64, attempts as i64, &e.to_string()),
            };
            // follow-on message on the same channel
            let d2 = make_payload(13, 0, 1, 64);
            let r2 = tx.send(M13 { tag: 2, data: d2, att: vec![], regs: vec![] });
            hist::log(if r2.is_ok() { "follow.ok" } else { "follow.err" }, 0, 0, 0, "");
            drop(tx);
        });
        sim::spawn("receiver", None, move || {
            let mut spurious = 0;
            loop {
                match rx.recv() {
                    Ok(m) => {
                        let ok = check_payload(&m.data).is_ok();
                        hist::log("deliver", m.tag as i64, m.data.len() as i64, ((m.att.len() as i64) << 8) | m.regs.len() as i64, if ok { "" } else { "BAD" });
                        if m.tag == 1 {
                            // probe attachments: each endpoint must be the very channel that was attached
                            for (i, a) in m.att.iter().enumerate() {
                                let _ = a.send(1000 + i as u32);
                            }
                            for (i, s) in sides.iter().enumerate() {
                                let got = s.try_recv().ok();
                                if got != Some(1000 + i as u32) {
                                    hist::log("probe.bad", i as i64, 0, 0, &format!("{:?}", got));
                                }
                            }
                            for rg in &m.regs {
                                if &rg[..] != &region_bytes[..] {
                                    hist::log("probe.bad", 99, 0, 0, "region contents differ");
                                }
                            }
                        }
                        if m.tag == 2 {
                            break;
                        }
                    },
                    Err(IpcError::Disconnected) => {
                        // may legitimately follow a send that *reported* an error (attributed to C12)
                        hist::log("recv.disconnected", 0, 0, 0, "");
                        spurious += 1;
                        if spurious > 3 {
                            break;
                        }
                    },
                    Err(e) => {
                        hist::log("recv.err", 0, 0, 0, &format!("{:?}", e));
                        spurious += 1;
                        if spurious > 3 {
                            break;
                        }
                    },
                }
            }
            hist::log("receiver.done", 0, 0, 0, "");
        });
        let blocked = sim::settle();

        // ------------------------------------------------------------ oracle
        let evs = hist::events();
        let send_ok = evs.iter().any(|e| e.op == "send.ok");
        let send_err = evs.iter().find(|e| e.op == "send.err");
        let fired = evs.iter().find(|e| e.op == "send.ok" || e.op == "send.err").map(|e| e.b).unwrap_or(0);
        let attempts = evs.iter().find(|e| e.op == "send.ok" || e.op == "send.err").map(|e| e.c).unwrap_or(0);
        let d1: Vec<&hist::Ev> = evs.iter().filter(|e| e.op == "deliver" && e.a == 1).collect();
        let d2: Vec<&hist::Ev> = evs.iter().filter(|e| e.op == "deliver" && e.a == 2).collect();
        let first_spurious = evs.iter().find(|e| e.op == "recv.disconnected").map(|e| e.seq);
        for e in evs.iter().filter(|e| e.op == "deliver" && e.s == "BAD") {
            out.viol("altered:recv", format!("a delivered message (tag {}) is not byte-identical to what was sent (len {})", e.a, e.b));
        }
        if send_ok {
            if d1.len() != 1 {
                out.viol(if d1.is_empty() { "lost:send-ok" } else { "duplicate:recv" }, format!("send returned Ok after {} refused attempts but the message was delivered {} times", fired, d1.len()));
            } else {
                let e = d1[0];
                let want_att = if with_att { (2 << 8) | 1 } else { 0 };
                if e.b as usize != sent_data.len() {
                    out.viol("shortened:recv", format!("sent {} bytes, received {}", sent_data.len(), e.b));
                }
                if e.c != want_att {
                    out.viol("attachments-lost:recv", format!("send returned Ok but the message arrived with attachments {:#x} instead of {:#x} (senders<<8|regions)", e.c, want_att));
                }
            }
            if first_spurious.is_some() {
                out.viol("false-disconnect:recv", "the receiver saw 'disconnected' although the send completed successfully and the sender was alive".into());
            }
        } else if send_err.is_some() && !d1.is_empty() {
            out.viol("delivered-after-error:recv", format!("send reported an error ({}) but the message was delivered as a complete message", send_err.unwrap().s));
        }
        for e in evs.iter().filter(|e| e.op == "probe.bad") {
            out.viol("attachment-misassigned:recv", format!("attachment {} of the received message is not the attached one: {}", e.a, e.s));
        }
        if evs.iter().any(|e| e.op == "follow.err") {
            out.viol("channel-broken:send", "the follow-on message could not be sent after the send under test".into());
        }
        if d2.len() != 1 && !blocked.iter().any(|b| b.label == "sender") {
            out.viol("follow-on-lost:recv", format!("the follow-on message was delivered {} times", d2.len()));
        }
        for e in evs.iter().filter(|e| e.op == "recv.err") {
            out.viol("recv-error:recv", format!("receive failed: {}", e.s));
        }
        for b in &blocked {
            if b.label == "sender" || b.label == "receiver" {
                out.viol(&format!("hang:{}", if b.label == "sender" { "send" } else { "recv" }), format!("{} blocked forever in {} ({} refusals fired)", b.label, b.in_call, fired));
            }
        }
        let st = &sim::g().stats;
        if st.p_trunc > 0 || st.p_ctrunc > 0 {
            out.viol("oversized-retry:send", format!("a transmitted packet did not fit the buffer the receiver offers (MSG_TRUNC seen {} times, MSG_CTRUNC {} times)", st.p_trunc, st.p_ctrunc));
        }
        // every descriptor that arrived with the messages has been handed to the program and dropped
        // by now; one that is still open came along unasked (e.g. attached twice by a retry)
        if blocked.iter().all(|b| b.label != "receiver" && b.label != "sender") {
            let stray = sim::open_received_fds();
            if !stray.is_empty() {
                out.viol("stray-descriptor:recv", format!("{} descriptor(s) arrived with the message that no part of the value refers to and that nothing closes (ledger ids {:?}); send ok: {}", stray.len(), stray, send_ok));
            }
        }
        if !noise && blocked.is_empty() {
            let extra = super::util::fds_beyond(&base_fds);
            if !extra.is_empty() {
                out.viol("descriptor-leak:end", format!("{} descriptor(s) remain open after the send ({} refusals fired, {}) and every handle was dropped: {}", extra.len(), fired, if send_ok { "Ok" } else { "Err" }, extra.join(", ")));
            }
        }
        for pn in hist::panics() {
            out.viol(&hist::panic_sig(pn), format!("panic in [{}]: {} at {}", pn.label, pn.msg, pn.loc));
        }
        out.nontrivial = fired > 0;
        out.probe("refusals_fired", fired as u64);
        out.probe("send_ok", send_ok as u64);
        out.probe("send_err", send_err.is_some() as u64);
        out.probe("ok_after_refusals", (send_ok && fired > 0) as u64);
        out.probe("spurious_disconnect_after_reported_error", (first_spurious.is_some() && !send_ok) as u64);
        out.sample = json!({"shape": SHAPES[p["shape"].as_u64().unwrap_or(0).min(4) as usize], "len": len, "attachments": with_att, "mask": format!("{:010b}", p["mask"].as_u64().unwrap_or(0)), "refusals_fired": fired, "attempts": attempts, "send_ok": send_ok});
        out
    }
}
