//! C14 — a failed or nested send leaves no trace in later or enclosing messages.
use super::*;
use crate::hist;
use ipc_channel::ipc::{self, IpcError, IpcReceiver, IpcSender, IpcSharedMemory, TryRecvError};
use serde::ser::{SerializeSeq, SerializeTuple};
use serde::{Deserialize, Deserializer, Serialize, Serializer};
use std::cell::RefCell;

pub struct C14S;
pub static C14: C14S = C14S;

pub type Wire = (u32, Vec<Item>);

/// Deserialising this value performs a receive on another channel (registered per thread).
pub struct DeHook(pub u32);
thread_local! { static HOOK_RX: RefCell<Option<IpcReceiver<Wire>>> = const { RefCell::new(None) }; }
impl Serialize for DeHook {
    fn serialize<S: Serializer>(&self, s: S) -> Result<S::Ok, S::Error> {
        self.0.serialize(s)
    }
}
impl<'de> Deserialize<'de> for DeHook {
    fn deserialize<D: Deserializer<'de>>(d: D) -> Result<Self, D::Error> {
        let id = u32::deserialize(d)?;
        HOOK_RX.with(|h| {
            if let Some(rx) = h.borrow().as_ref() {
                match rx.try_recv() {
                    Ok((mid, items)) => {
                        hist::log("inner.recv", mid as i64, items.len() as i64, 0, "inside-deserialize");
                        probe_items(mid, items);
                    },
                    Err(e) => {
                        hist::log("inner.recv.err", id as i64, 0, 0, &format!("{:?}", e));
                    },
                }
            }
        });
        Ok(DeHook(id))
    }
}

#[derive(Serialize, Deserialize)]
pub enum Item {
    Plain(u32),
    Tx(u32, IpcSender<u32>),
    Rx(u32, IpcReceiver<u32>),
    Region(u32, IpcSharedMemory),
    Hook(DeHook),
}

enum HookKind<'a> {
    None,
    Fail,
    Nested(&'a dyn Fn() -> bool, bool), // (inner send closure returning success, propagate failure)
}
struct W<'a> {
    id: u32,
    items: &'a [Item],
    hook_at: usize,
    hook: HookKind<'a>,
}
struct Seq<'a>(&'a W<'a>);
impl<'a> Serialize for Seq<'a> {
    fn serialize<S: Serializer>(&self, s: S) -> Result<S::Ok, S::Error> {
        let w = self.0;
        let mut seq = s.serialize_seq(Some(w.items.len()))?;
        for (i, it) in w.items.iter().enumerate() {
            if i == w.hook_at {
                match &w.hook {
                    HookKind::None => {},
                    HookKind::Fail => return Err(serde::ser::Error::custom("serialisation refused by the value")),
                    HookKind::Nested(f, propagate) => {
                        let ok = f();
                        if !ok && *propagate {
                            return Err(serde::ser::Error::custom("nested send failed"));
                        }
                    },
                }
            }
            seq.serialize_element(it)?;
        }
        if w.hook_at >= w.items.len() {
            match &w.hook {
                HookKind::None => {},
                HookKind::Fail => return Err(serde::ser::Error::custom("serialisation refused by the value")),
                HookKind::Nested(f, propagate) => {
                    let ok = f();
                    if !ok && *propagate {
                        return Err(serde::ser::Error::custom("nested send failed"));
                    }
                },
            }
        }
        seq.end()
    }
}
impl<'a> Serialize for W<'a> {
    fn serialize<S: Serializer>(&self, s: S) -> Result<S::Ok, S::Error> {
        let mut t = s.serialize_tuple(2)?;
        t.serialize_element(&self.id)?;
        t.serialize_element(&Seq(self))?;
        t.end()
    }
}
// W is only ever sent; the receiving side reads the same bytes as `Wire`.
impl<'de, 'a> Deserialize<'de> for W<'a> {
    fn deserialize<D: Deserializer<'de>>(_: D) -> Result<Self, D::Error> {
        Err(serde::de::Error::custom("send-only"))
    }
}

fn region_bytes(cid: u32) -> Vec<u8> {
    (0..(100 + (cid % 7) * 1000)).map(|i| (i * 31 + cid) as u8).collect()
}

/// Everything the rest of the system holds for one embedded item.
enum Peer {
    /// we embedded the sender: an observer watches the receiver
    WatchRx(u32, IpcReceiver<u32>),
    /// we embedded the receiver: a prober holds the sender
    HoldTx(u32, IpcSender<u32>),
}

/// Build the items of message `mid` from a spec like ["tx","rx","region","plain","hook"].
fn build_items(spec: &[Value], next_cid: &mut u32, peers: &mut Vec<Peer>, expect: &mut Vec<(u32, &'static str)>) -> Vec<Item> {
    let mut items = vec![];
    for s in spec {
        let cid = *next_cid;
        *next_cid += 1;
        match s.as_str().unwrap_or("plain") {
            "tx" => {
                let (t, r) = ipc::channel::<u32>().unwrap();
                peers.push(Peer::WatchRx(cid, r));
                expect.push((cid, "tx"));
                items.push(Item::Tx(cid, t));
            },
            "rx" => {
                let (t, r) = ipc::channel::<u32>().unwrap();
                // a token already queued: the receiver that arrives must be this very channel
                t.send(cid).unwrap();
                peers.push(Peer::HoldTx(cid, t));
                expect.push((cid, "rx"));
                items.push(Item::Rx(cid, r));
            },
            "region" => {
                expect.push((cid, "region"));
                items.push(Item::Region(cid, IpcSharedMemory::from_bytes(&region_bytes(cid))));
            },
            "hook" => {
                expect.push((cid, "hook"));
                items.push(Item::Hook(DeHook(cid)));
            },
            _ => {
                expect.push((cid, "plain"));
                items.push(Item::Plain(cid));
            },
        }
    }
    items
}
fn log_expect(mid: u32, expect: &[(u32, &'static str)]) {
    for (i, (cid, k)) in expect.iter().enumerate() {
        hist::log("expect", mid as i64, i as i64, *cid as i64, k);
    }
}
/// Receiver side: check every item of a received message and log what it is.
fn probe_items(mid: u32, items: Vec<Item>) {
    for (i, it) in items.into_iter().enumerate() {
        match it {
            Item::Plain(c) => {
                hist::log("got", mid as i64, i as i64, c as i64, "plain");
            },
            Item::Hook(h) => {
                hist::log("got", mid as i64, i as i64, h.0 as i64, "hook");
            },
            Item::Tx(c, t) => {
                // the observer of channel c must receive this nonce
                let r = t.send(c * 10 + 1);
                hist::log("got", mid as i64, i as i64, c as i64, if r.is_ok() { "tx" } else { "tx-dead" });
            },
            Item::Rx(c, r) => {
                let tok = r.try_recv();
                let what = match tok {
                    Ok(v) if v == c => "rx",
                    Ok(_) => "rx-wrong-channel",
                    Err(_) => "rx-empty",
                };
                hist::log("got", mid as i64, i as i64, c as i64, what);
                hist::log("droprx", c as i64, 0, 0, "");
            },
            Item::Region(c, m) => {
                let ok = &m[..] == &region_bytes(c)[..];
                hist::log("got", mid as i64, i as i64, c as i64, if ok { "region" } else { "region-wrong-bytes" });
            },
        }
    }
}

fn spawn_peers(peers: Vec<Peer>) {
    for p in peers {
        match p {
            Peer::WatchRx(cid, r) => {
                sim::spawn(&format!("observer{}", cid), None, move || loop {
                    match r.recv() {
                        Ok(v) => {
                            hist::log("obs.got", cid as i64, v as i64, 0, "");
                        },
                        Err(IpcError::Disconnected) => {
                            hist::log("obs.closed", cid as i64, 0, 0, "");
                            return;
                        },
                        Err(e) => {
                            hist::log("obs.err", cid as i64, 0, 0, &format!("{:?}", e));
                            return;
                        },
                    }
                });
            },
            Peer::HoldTx(cid, t) => {
                HELD.with(|h| h.borrow_mut().push((cid, t)));
            },
        }
    }
}
thread_local! { static HELD: RefCell<Vec<(u32, IpcSender<u32>)>> = const { RefCell::new(Vec::new()) }; }

struct Ctx {
    outer: IpcSender<W<'static>>,
    inner: IpcSender<W<'static>>,
    dead: IpcSender<W<'static>>,
    next_cid: u32,
    next_mid: u32,
}

/// One send step; `spec` may nest. Returns whether the send returned Ok.
fn do_step(cx: &mut Ctx, step: &Value, depth: u32) -> bool {
    let mid = cx.next_mid;
    cx.next_mid += 1;
    let kind = step["kind"].as_str().unwrap_or("plain").to_string();
    let spec: Vec<Value> = step["items"].as_array().cloned().unwrap_or_default().into_iter().take(8).collect();
    let mut peers = vec![];
    let mut expect = vec![];
    let mut cid = cx.next_cid;
    let items = build_items(&spec, &mut cid, &mut peers, &mut expect);
    cx.next_cid = cid;
    spawn_peers(peers);
    log_expect(mid, &expect);
    let hook_at = step["at"].as_u64().unwrap_or(0) as usize;
    let chan = if kind == "dead" { "dead" } else if depth > 0 { "inner" } else { "outer" };
    // the borrow of cx inside the nested closure needs a raw pointer (single-threaded use)
    let cxp = cx as *mut Ctx;
    let target: &IpcSender<W<'static>> = unsafe {
        match chan {
            "inner" => &(*cxp).inner,
            "dead" => &(*cxp).dead,
            _ => &(*cxp).outer,
        }
    };
    let nested_step = step["inner"].clone();
    let inner_closure = move || -> bool {
        if nested_step.is_null() || depth >= 3 {
            return true;
        }
        unsafe { do_step(&mut *cxp, &nested_step, depth + 1) }
    };
    let hook = match kind.as_str() {
        "fail" => HookKind::Fail,
        "nested" => HookKind::Nested(&inner_closure, step["propagate"].as_bool().unwrap_or(false)),
        _ => HookKind::None,
    };
    let w = W { id: mid, items: &items, hook_at, hook };
    hist::log("send.inv", mid as i64, depth as i64, items.len() as i64, chan);
    // SAFETY: W borrows `items` and the closure only for the duration of this call; the channel
    // type says 'static because IpcSender<T> needs one concrete T.
    let w_static: W<'static> = unsafe { std::mem::transmute(w) };
    let r = target.send(w_static);
    let ok = r.is_ok();
    hist::log(if ok { "send.ok" } else { "send.err" }, mid as i64, depth as i64, 0, &r.err().map(|e| e.to_string()).unwrap_or_default());
    drop(items);
    hist::log("values.dropped", mid as i64, 0, 0, "");
    ok
}

impl Scenario for C14S {
    fn id(&self) -> &'static str {
        "C14"
    }
    fn variants(&self) -> &'static [&'static str] {
        &["os", "inproc"]
    }
    fn count(&self, tier: Tier, variant: &str) -> u64 {
        match (tier, variant) {
            (Tier::Quick, "os") => 40_000,
            (Tier::Quick, _) => 12_000,
            (Tier::Thorough, "os") => 1_800_000,
            (Tier::Thorough, _) => 500_000,
        }
    }
    fn rule(&self) -> &'static str {
        "case = program of 1..6 top-level sends from one thread (the last one always plain): plain values with 0..8 embedded endpoints/regions; values whose Serialize fails after visiting k items; sends to a channel whose receiver is gone (OS rejection); sends issued from inside another value's Serialize (depth <=3, attachments before/inside/after, inner send failing or not, failure propagated or not); a receive inside a Deserialize; followed by further plain traffic; observers watch every embedded channel; non-trivial = at least one failing or nested send with >=1 attachment; distinct = distinct (program, schedule hash)"
    }
    fn gen(&self, seed: u64, idx: u64, _tier: Tier, _variant: &str) -> Value {
        let mut r = Rng::stream(seed, idx.wrapping_mul(2654435761).wrapping_add(0xC14));
        let sim = sim_json(&mut r, seed ^ idx.wrapping_mul(0x9E37));
        fn items(r: &mut Rng, hook_ok: bool) -> Vec<Value> {
            (0..r.below(9)).map(|_| json!(*r.pick(if hook_ok { &["tx", "tx", "rx", "region", "plain", "hook"][..] } else { &["tx", "tx", "rx", "region", "plain"][..] }))).collect()
        }
        fn step(r: &mut Rng, depth: u32) -> Value {
            let it = items(r, depth == 0);
            let n = it.len() as u64;
            match r.below(10) {
                0..=2 => json!({"kind": "plain", "items": it}),
                3..=5 => json!({"kind": "fail", "items": it, "at": r.below(n + 1)}),
                6 => json!({"kind": "dead", "items": it}),
                _ if depth < 3 => json!({"kind": "nested", "items": it, "at": r.below(n + 1), "propagate": r.chance(1, 3), "inner": step(r, depth + 1)}),
                _ => json!({"kind": "plain", "items": it}),
            }
        }
        let n = r.range(0, 5);
        let mut steps: Vec<Value> = (0..n).map(|_| step(&mut r, 0)).collect();
        // always finish with ordinary traffic from the same thread
        steps.push(json!({"kind": "plain", "items": items(&mut r, false)}));
        json!({"sim": sim, "steps": steps})
    }
    fn run(&self, p: &Value) -> Outcome {
        let mut out = Outcome::default();
        start_sim(p);
        let steps: Vec<Value> = p["steps"].as_array().cloned().unwrap_or_default().into_iter().take(8).collect();
        let (outer_tx, outer_rx) = ipc::channel::<W<'static>>().unwrap();
        let (inner_tx, inner_rx) = ipc::channel::<W<'static>>().unwrap();
        let (dead_tx, dead_rx) = ipc::channel::<W<'static>>().unwrap();
        drop(dead_rx);
        // the decoding side reads the same bytes as `Wire`
        let outer_rx: IpcReceiver<Wire> = outer_rx.to_opaque().to();
        let inner_rx: IpcReceiver<Wire> = inner_rx.to_opaque().to();
        let (hook_tx, hook_rx) = ipc::channel::<Wire>().unwrap();
        // the message picked up by the receive-inside-Deserialize: one endpoint, one plain
        let (htx, hrx) = ipc::channel::<u32>().unwrap();
        hist::log("expect", 9000, 0, 9001, "tx");
        hist::log("expect", 9000, 1, 9002, "plain");
        let n_hooks = steps.iter().filter(|s| s["items"].as_array().map(|a| a.iter().any(|x| x == "hook")).unwrap_or(false)).count();
        sim::spawn("observer9001", None, move || loop {
            match hrx.recv() {
                Ok(v) => {
                    hist::log("obs.got", 9001, v as i64, 0, "");
                },
                Err(_) => {
                    hist::log("obs.closed", 9001, 0, 0, "");
                    return;
                },
            }
        });
        if n_hooks > 0 {
            hook_tx.send((9000, vec![Item::Tx(9001, htx), Item::Plain(9002)])).unwrap();
        } else {
            drop(htx);
        }
        drop(hook_tx);
        fn decoder(name: &str, rx: IpcReceiver<Wire>, hook_rx: Option<IpcReceiver<Wire>>) {
            sim::spawn(name, None, move || {
                if let Some(h) = hook_rx {
                    HOOK_RX.with(|c| *c.borrow_mut() = Some(h));
                }
                loop {
                    match rx.recv() {
                        Ok((mid, items)) => {
                            hist::log("recv", mid as i64, items.len() as i64, 0, "");
                            probe_items(mid, items);
                        },
                        Err(IpcError::Disconnected) => break,
                        Err(e) => {
                            hist::log("recv.err", 0, 0, 0, &format!("{:?}", e));
                        },
                    }
                }
                HOOK_RX.with(|c| *c.borrow_mut() = None);
            });
        }
        decoder("decoder-outer", outer_rx, Some(hook_rx));
        decoder("decoder-inner", inner_rx, None);
        struct ForceSend<T>(T);
        unsafe impl<T> Send for ForceSend<T> {}
        let txs = ForceSend((outer_tx, inner_tx, dead_tx));
        sim::spawn("program", None, move || {
            let txs = txs;
            let (outer_tx, inner_tx, dead_tx) = txs.0;
            let mut cx = Ctx { outer: outer_tx, inner: inner_tx, dead: dead_tx, next_cid: 1, next_mid: 1 };
            for s in &steps {
                do_step(&mut cx, s, 0);
                sim::yield_now();
            }
            // the program is done with all its handles, but the thread stays alive: thread exit
            // would release the library's per-thread tables and mask what a failed send left there
            let held: Vec<(u32, IpcSender<u32>)> = HELD.with(|h| std::mem::take(&mut *h.borrow_mut()));
            drop(cx);
            hist::log("program.done", 0, 0, 0, "");
            // probe the channels whose *receiver* we embedded: if the value failed to be sent the
            // receiver must be gone by now
            sim::sleep_ns(1_000_000);
            for (cid, t) in held {
                let r = t.send(77);
                hist::log("probe.rxchan", cid as i64, r.is_ok() as i64, 0, "");
                drop(t);
            }
            hist::log("program.idle", 0, 0, 0, "");
            loop {
                std::thread::park();
            }
        });
        let blocked = sim::settle();

        // ------------------------------------------------------------ oracle
        let evs = hist::events();
        // message outcome
        let mut nontrivial = false;
        let mids: Vec<i64> = evs.iter().filter(|e| e.op == "send.inv").map(|e| e.a).collect();
        // one message is queued for the receive inside Deserialize before anything is sent: the first
        // such receive must get it (later ones find the channel empty, which is fine)
        if let Some(e) = evs.iter().find(|e| e.op == "inner.recv" || e.op == "inner.recv.err") {
            if e.op == "inner.recv.err" {
                out.viol("inner-recv-failed:deserialize", format!("the first receive performed inside a Deserialize impl failed ({}) although its message had been queued beforehand", e.s));
            }
        }
        for mid in mids.iter().copied().chain(std::iter::once(9000)) {
            let expect: Vec<(i64, i64, String)> = evs.iter().filter(|e| e.op == "expect" && e.a == mid).map(|e| (e.b, e.c, e.s.clone())).collect();
            let sent_ok = mid == 9000 && n_hooks > 0 || evs.iter().any(|e| e.op == "send.ok" && e.a == mid);
            let sent_err = evs.iter().find(|e| e.op == "send.err" && e.a == mid);
            let got: Vec<(i64, i64, String)> = evs.iter().filter(|e| e.op == "got" && e.a == mid).map(|e| (e.b, e.c, e.s.clone())).collect();
            let received = evs.iter().any(|e| (e.op == "recv" || e.op == "inner.recv") && e.a == mid);
            let has_att = expect.iter().any(|x| x.2 == "tx" || x.2 == "rx" || x.2 == "region");
            if sent_ok {
                if !received {
                    if !(mid == 9000) {
                        out.viol("lost:send-ok", format!("message {} was sent successfully but never arrived", mid));
                    }
                    continue;
                }
                if got.len() != expect.len() {
                    out.viol("attachment-count:recv", format!("message {} arrived with {} items instead of {}", mid, got.len(), expect.len()));
                }
                for (g, x) in got.iter().zip(expect.iter()) {
                    if g.1 != x.1 || g.2 != x.2 {
                        out.viol("foreign-or-misplaced-attachment:recv", format!("message {} item {}: expected {} #{} but the receiver found {} #{}", mid, x.0, x.2, x.1, g.2, g.1));
                    }
                }
                // endpoint identity: the nonce sent through a received sender reaches the matching observer
                for x in expect.iter().filter(|x| x.2 == "tx") {
                    if !evs.iter().any(|e| e.op == "obs.got" && e.a == x.1 && e.b == x.1 * 10 + 1) {
                        out.viol("wrong-endpoint:recv", format!("message {}: the sender received for channel {} is not connected to that channel", mid, x.1));
                    }
                }
            } else if sent_err.is_some() {
                if has_att {
                    nontrivial = true;
                }
                if received {
                    out.viol("delivered-after-error:recv", format!("send of message {} reported an error but the message was delivered", mid));
                }
            }
            if evs.iter().any(|e| e.op == "send.inv" && e.a == mid && e.b > 0) && has_att {
                nontrivial = true;
            }
        }
        // after the program dropped everything: every embedded sender's channel disconnects
        let idle = evs.iter().any(|e| e.op == "program.idle");
        if idle {
            for e in evs.iter().filter(|e| e.op == "expect" && e.s == "tx" && e.a != 9000) {
                let cid = e.c;
                let mid = e.a;
                let failed = evs.iter().any(|x| x.op == "send.err" && x.a == mid);
                let closed = evs.iter().any(|x| x.op == "obs.closed" && x.a == cid);
                let obs_blocked = blocked.iter().any(|b| b.label == format!("observer{}", cid));
                // if the message was delivered, the decoder dropped the received sender after probing
                if !closed && obs_blocked {
                    out.viol(
                        if failed { "retained-after-failed-send:sender" } else { "retained-after-send:sender" },
                        format!("channel {} (its sender was embedded in message {} whose send {}) never disconnects although the program dropped all its handles: the library still holds the endpoint", cid, mid, if failed { "failed" } else { "succeeded" }),
                    );
                }
            }
            for e in evs.iter().filter(|e| e.op == "probe.rxchan") {
                let cid = e.a;
                let mid = evs.iter().find(|x| x.op == "expect" && x.c == cid).map(|x| x.a).unwrap_or(-1);
                let failed = evs.iter().any(|x| x.op == "send.err" && x.a == mid);
                let delivered = evs.iter().any(|x| x.op == "droprx" && x.a == cid);
                if e.b == 1 && (failed || delivered) {
                    out.viol(
                        if failed { "retained-after-failed-send:receiver" } else { "retained-after-send:receiver" },
                        format!("a send on channel {} still succeeds although its receiver (embedded in message {}, send {}) has been dropped everywhere: the library still holds it", cid, mid, if failed { "failed" } else { "succeeded and was consumed" }),
                    );
                }
            }
        } else {
            let b = blocked.iter().find(|b| b.label == "program");
            match b {
                Some(b) => out.viol("hang:send", format!("the sending thread blocked forever in {}", b.in_call)),
                None => out.viol("sender-died:send", "the sending thread died (panic inside send)".into()),
            }
        }
        for e in evs.iter().filter(|e| e.op == "recv.err" || e.op == "obs.err") {
            out.viol("recv-error:recv", format!("{}: {}", e.op, e.s));
        }
        for pn in hist::panics() {
            out.viol(&hist::panic_sig(pn), format!("panic in [{}]: {} at {}", pn.label, pn.msg, pn.loc));
        }
        out.nontrivial = nontrivial;
        out.probe("sends_failed", evs.iter().filter(|e| e.op == "send.err").count() as u64);
        out.probe("sends_ok", evs.iter().filter(|e| e.op == "send.ok").count() as u64);
        out.probe("nested_sends", evs.iter().filter(|e| e.op == "send.inv" && e.b > 0).count() as u64);
        if blocked.is_empty() && hist::panics().is_empty() {
            let stray = sim::open_received_fds();
            if !stray.is_empty() {
                out.viol("stray-descriptor:recv", format!("{} descriptor(s) arrived with the messages that no part of a value refers to and that nothing closes (ledger ids {:?}): attachments of a failed or nested send rode along", stray.len(), stray));
            }
        }
        out.probe("receive_inside_deserialize", evs.iter().filter(|e| e.op == "inner.recv").count() as u64);
        out.probe("observers_closed", evs.iter().filter(|e| e.op == "obs.closed").count() as u64);
        out.sample = json!({"steps": p["steps"], "sent_ok": evs.iter().filter(|e| e.op == "send.ok").count(), "sent_err": evs.iter().filter(|e| e.op == "send.err").count()});
        out
    }
}
