//! C15 — messages with too many attachments for one message are refused, not mangled.
use super::util::predict_frag;
use super::*;
use crate::hist;
use ipc_channel::ipc::{self, IpcError, IpcReceiver, IpcSender, IpcSharedMemory};
use serde::{Deserialize, Serialize};

pub struct C15S;
pub static C15: C15S = C15S;

#[derive(Serialize, Deserialize)]
pub struct M15 {
    pub tag: u32,
    pub data: Vec<u8>,
    pub tx: Vec<IpcSender<u32>>,
    pub rx: Vec<IpcReceiver<u32>>,
    pub regs: Vec<IpcSharedMemory>,
}
const MIX: [&str; 4] = ["senders", "receivers", "regions", "mixed"];
const DATA: [&str; 5] = ["empty", "small", "exactly-one-packet", "one-byte-over", "multi-packet"];
const BASE: u64 = 301 * 4 * 5;

fn reg_bytes(i: usize) -> Vec<u8> {
    (0..(50 + i % 13)).map(|k| (k * 3 + i) as u8).collect()
}

impl Scenario for C15S {
    fn id(&self) -> &'static str {
        "C15"
    }
    fn variants(&self) -> &'static [&'static str] {
        &["os"]
    }
    fn exhaustive(&self) -> bool {
        true
    }
    fn count(&self, tier: Tier, _variant: &str) -> u64 {
        match tier {
            Tier::Quick => BASE * 3,
            Tier::Thorough => BASE * 100,
        }
    }
    fn rule(&self) -> &'static str {
        "enumeration: attachment count 0..300 x mixture (senders | receivers | regions | mixed) x data part (empty | small | exactly one packet | one byte over | multi-packet); each case with a receiver thread that probes every received attachment, then a normal follow-up message; at the end, with every handle dropped, the descriptor table must be back at its baseline (accepted or refused); quick runs the enumeration 3 times (two SO_SNDBUF settings; the third pass with ENOBUFS on the first transmission attempt), thorough 100 times; non-trivial = more than 60 attachments; distinct = distinct (count, mixture, data part, schedule hash)"
    }
    fn gen(&self, seed: u64, idx: u64, _tier: Tier, _variant: &str) -> Value {
        let rep = idx / BASE;
        let i = idx % BASE;
        let n = i % 301;
        let mix = MIX[((i / 301) % 4) as usize];
        let data = DATA[((i / 1204) % 5) as usize];
        let mut r = Rng::stream(seed, idx.wrapping_mul(2654435761).wrapping_add(0xC15));
        let mut sim = sim_json(&mut r, seed ^ idx.wrapping_mul(0x9E37));
        sim["sndbuf"] = if rep % 2 == 0 { json!(8192) } else { Value::Null };
        if rep == 0 {
            sim["policy"] = json!({"kind": "sticky", "pct": 85});
        }
        if rep % 3 == 2 {
            // transient refusal of the first attempt: a single-packet message is re-sent fragmented
            // (one more descriptor travels), a multi-packet one with smaller packets
            sim["faults"] = json!([{"k": "txerr", "pid": 2, "nth": 0, "errno": libc::ENOBUFS}]);
        }
        let (first, _) = predict_frag(sim["sndbuf"].as_u64(), false);
        // serialised size = 4 (tag) + 8+len + (8+8a) + (8+8b) + (8+8c)
        let overhead = 4 + 32 + 8 * n as usize;
        let len = match data {
            "empty" => 0,
            "small" => 100,
            "exactly-one-packet" => first.saturating_sub(overhead),
            "one-byte-over" => first.saturating_sub(overhead) + 1,
            _ => 2 * first + 777,
        };
        json!({"sim": sim, "n": n, "mix": mix, "data": data, "len": len})
    }
    fn run(&self, p: &Value) -> Outcome {
        let mut out = Outcome::default();
        start_sim(p);
        let base_fds = super::util::fd_baseline();
        let n = p["n"].as_u64().unwrap_or(0).min(320) as usize;
        let mix = p["mix"].as_str().unwrap_or("senders").to_string();
        let len = p["len"].as_u64().unwrap_or(0).min(4 << 20) as usize;
        let (tx, rx) = ipc::channel::<M15>().unwrap();
        let mut m = M15 { tag: 1, data: vec![0xab; len], tx: vec![], rx: vec![], regs: vec![] };
        let mut watch_rx: Vec<IpcReceiver<u32>> = vec![]; // other ends of embedded senders
        let mut hold_tx: Vec<IpcSender<u32>> = vec![]; // other ends of embedded receivers
        for i in 0..n {
            let kind = match mix.as_str() {
                "senders" => 0,
                "receivers" => 1,
                "regions" => 2,
                _ => i % 3,
            };
            match kind {
                0 => {
                    let (s, r) = ipc::channel::<u32>().unwrap();
                    m.tx.push(s);
                    watch_rx.push(r);
                },
                1 => {
                    let (s, r) = ipc::channel::<u32>().unwrap();
                    s.send(7000 + m.rx.len() as u32).unwrap();
                    m.rx.push(r);
                    hold_tx.push(s);
                },
                _ => m.regs.push(IpcSharedMemory::from_bytes(&reg_bytes(m.regs.len()))),
            }
        }
        let (ntx, nrx, nreg) = (m.tx.len(), m.rx.len(), m.regs.len());
        sim::spawn("sender", Some(2), move || {
            let _keep = hold_tx;
            hist::log("send.inv", 1, n as i64, len as i64, "");
            let r = tx.send(m);
            // (a refusal that did not fire inside the send under test must not hit the follow-up)
            sim::clear_faults();
            match r {
                Ok(()) => hist::log("send.ok", 1, 0, 0, ""),
                Err(e) => hist::log("send.err", 1, 0, 0, &e.to_string()),
            };
            let r2 = tx.send(M15 { tag: 2, data: vec![1, 2, 3], tx: vec![], rx: vec![], regs: vec![] });
            hist::log(if r2.is_ok() { "follow.ok" } else { "follow.err" }, 0, 0, 0, "");
            drop(tx);
        });
        sim::spawn("receiver", None, move || {
            loop {
                match rx.recv() {
                    Ok(m) => {
                        hist::log("deliver", m.tag as i64, m.data.len() as i64, 0, &format!("{}/{}/{}", m.tx.len(), m.rx.len(), m.regs.len()));
                        if m.tag == 1 {
                            let mut bad = 0;
                            for (i, s) in m.tx.iter().enumerate() {
                                let _ = s.send(i as u32);
                            }
                            for (i, w) in watch_rx.iter().enumerate() {
                                if w.try_recv().ok() != Some(i as u32) {
                                    bad += 1;
                                }
                            }
                            for (i, r) in m.rx.iter().enumerate() {
                                if r.try_recv().ok() != Some(7000 + i as u32) {
                                    bad += 1;
                                }
                            }
                            for (i, g) in m.regs.iter().enumerate() {
                                if &g[..] != &reg_bytes(i)[..] {
                                    bad += 1;
                                }
                            }
                            hist::log("probe", bad, 0, 0, "");
                        }
                        if m.tag == 2 {
                            break;
                        }
                    },
                    Err(IpcError::Disconnected) => {
                        hist::log("recv.closed", 0, 0, 0, "");
                        break;
                    },
                    Err(e) => {
                        hist::log("recv.err", 0, 0, 0, &format!("{:?}", e));
                        break;
                    },
                }
            }
            hist::log("receiver.done", 0, 0, 0, "");
        });
        let blocked = sim::settle();

        // ------------------------------------------------------------ oracle
        let evs = hist::events();
        let ok = evs.iter().any(|e| e.op == "send.ok");
        let err = evs.iter().find(|e| e.op == "send.err");
        let d1 = evs.iter().find(|e| e.op == "deliver" && e.a == 1);
        let d2 = evs.iter().any(|e| e.op == "deliver" && e.a == 2);
        let want = format!("{}/{}/{}", ntx, nrx, nreg);
        if ok {
            match d1 {
                None => out.viol("accepted-but-lost:send", format!("send accepted a message with {} attachments ({}) but it never arrived", n, want)),
                Some(d) => {
                    if d.s != want {
                        out.viol("attachments-missing:recv", format!("send accepted {} attachments (senders/receivers/regions = {}) but the message arrived with {}", n, want, d.s));
                    }
                    if d.b as usize != len {
                        out.viol("data-altered:recv", format!("sent {} data bytes, received {}", len, d.b));
                    }
                    if let Some(pb) = evs.iter().find(|e| e.op == "probe") {
                        if pb.a > 0 {
                            out.viol("attachments-misassigned:recv", format!("{} of the {} received attachments are not the ones that were attached in that position", pb.a, n));
                        }
                    }
                },
            }
        } else if err.is_some() && d1.is_some() {
            out.viol("delivered-after-error:recv", "send refused the message but it was delivered".into());
        }
        if evs.iter().any(|e| e.op == "follow.err") {
            out.viol("channel-unusable:send", format!("after the send with {} attachments ({}) the channel no longer accepts an ordinary message", n, if ok { "accepted" } else { "refused" }));
        } else if !d2 && evs.iter().any(|e| e.op == "follow.ok") {
            out.viol("follow-up-lost:recv", format!("the ordinary message sent after the {}-attachment message never arrived", n));
        }
        for b in &blocked {
            if b.label == "receiver" || b.label == "sender" {
                out.viol(&format!("hang:{}", if b.label == "sender" { "send" } else { "recv" }), format!("{} blocked forever in {} ({} attachments, data {})", b.label, b.in_call, n, p["data"]));
            }
        }
        if !blocked.iter().any(|b| b.label == "receiver") && !evs.iter().any(|e| e.op == "receiver.done") {
            out.viol("receiver-died:recv", format!("the receiving thread died while receiving a message with {} attachments", n));
        }
        let st = &sim::g().stats;
        if st.p_ctrunc > 0 && ok {
            out.viol("control-truncated:recv", format!("an accepted message lost descriptors in transit (MSG_CTRUNC seen {} times at the seam)", st.p_ctrunc));
        }
        for e in evs.iter().filter(|e| e.op == "recv.err") {
            out.viol("recv-error:recv", e.s.clone());
        }
        // every handle of the scenario is gone by now (the message was moved into send, the receiver
        // dropped what it got): whatever the send set up for the transfer must be closed again,
        // whether it accepted or refused the message
        if blocked.is_empty() && evs.iter().any(|e| e.op == "receiver.done") {
            let extra = super::util::fds_beyond(&base_fds);
            if !extra.is_empty() {
                out.viol(if ok { "descriptor-leak:accepted-send" } else { "descriptor-leak:refused-send" }, format!("after a send with {} attachments was {} and every handle was dropped, {} descriptor(s) remain open: {}", n, if ok { "accepted" } else { "refused" }, extra.len(), extra.join(", ")));
            }
        }
        for pn in hist::panics() {
            out.viol(&hist::panic_sig(pn), format!("panic in [{}]: {} at {}", pn.label, pn.msg, pn.loc));
        }
        out.nontrivial = n > 60;
        out.probe("accepted", ok as u64);
        out.probe("refused", err.is_some() as u64);
        out.probe("accepted_over_60", (ok && n > 60) as u64);
        out.sample = json!({"attachments": n, "mix": mix, "data": p["data"], "len": len, "accepted": ok, "error": err.map(|e| e.s.clone())});
        out
    }
}
