//! C16 — undecodable or mismatched payloads produce errors, not panics or leaks.
use super::*;
use crate::hist;
use ipc_channel::ipc::{self, IpcError, IpcReceiver, IpcReceiverSet, IpcSelectionResult, IpcSender, IpcSharedMemory};
use serde::ser::{Impossible, SerializeTuple};
use serde::{Deserialize, Deserializer, Serialize, Serializer};

pub struct C16S;
pub static C16: C16S = C16S;

// ---- a serializer that swallows everything: used to *register* an attachment without writing its index
struct Discard;
#[derive(Debug)]
struct DErr;
impl std::fmt::Display for DErr {
    fn fmt(&self, f: &mut std::fmt::Formatter) -> std::fmt::Result {
        write!(f, "discard")
    }
}
impl std::error::Error for DErr {}
impl serde::ser::Error for DErr {
    fn custom<T: std::fmt::Display>(_: T) -> Self {
        DErr
    }
}
macro_rules! discard_prim {
    ($($f:ident: $t:ty),*) => { $(fn $f(self, _: $t) -> Result<(), DErr> { Ok(()) })* };
}
impl Serializer for Discard {
    type Ok = ();
    type Error = DErr;
    type SerializeSeq = Impossible<(), DErr>;
    type SerializeTuple = Impossible<(), DErr>;
    type SerializeTupleStruct = Impossible<(), DErr>;
    type SerializeTupleVariant = Impossible<(), DErr>;
    type SerializeMap = Impossible<(), DErr>;
    type SerializeStruct = Impossible<(), DErr>;
    type SerializeStructVariant = Impossible<(), DErr>;
    discard_prim!(serialize_bool: bool, serialize_i8: i8, serialize_i16: i16, serialize_i32: i32, serialize_i64: i64,
        serialize_u8: u8, serialize_u16: u16, serialize_u32: u32, serialize_u64: u64, serialize_f32: f32, serialize_f64: f64,
        serialize_char: char, serialize_str: &str, serialize_bytes: &[u8]);
    fn serialize_none(self) -> Result<(), DErr> {
        Ok(())
    }
    fn serialize_some<T: ?Sized + Serialize>(self, _: &T) -> Result<(), DErr> {
        Ok(())
    }
    fn serialize_unit(self) -> Result<(), DErr> {
        Ok(())
    }
    fn serialize_unit_struct(self, _: &'static str) -> Result<(), DErr> {
        Ok(())
    }
    fn serialize_unit_variant(self, _: &'static str, _: u32, _: &'static str) -> Result<(), DErr> {
        Ok(())
    }
    fn serialize_newtype_struct<T: ?Sized + Serialize>(self, _: &'static str, _: &T) -> Result<(), DErr> {
        Ok(())
    }
    fn serialize_newtype_variant<T: ?Sized + Serialize>(self, _: &'static str, _: u32, _: &'static str, _: &T) -> Result<(), DErr> {
        Ok(())
    }
    fn serialize_seq(self, _: Option<usize>) -> Result<Self::SerializeSeq, DErr> {
        Err(DErr)
    }
    fn serialize_tuple(self, _: usize) -> Result<Self::SerializeTuple, DErr> {
        Err(DErr)
    }
    fn serialize_tuple_struct(self, _: &'static str, _: usize) -> Result<Self::SerializeTupleStruct, DErr> {
        Err(DErr)
    }
    fn serialize_tuple_variant(self, _: &'static str, _: u32, _: &'static str, _: usize) -> Result<Self::SerializeTupleVariant, DErr> {
        Err(DErr)
    }
    fn serialize_map(self, _: Option<usize>) -> Result<Self::SerializeMap, DErr> {
        Err(DErr)
    }
    fn serialize_struct(self, _: &'static str, _: usize) -> Result<Self::SerializeStruct, DErr> {
        Err(DErr)
    }
    fn serialize_struct_variant(self, _: &'static str, _: u32, _: &'static str, _: usize) -> Result<Self::SerializeStructVariant, DErr> {
        Err(DErr)
    }
}

pub enum Att {
    Tx(IpcSender<u32>),
    Rx(IpcReceiver<u32>),
    Region(IpcSharedMemory),
}
/// Arbitrary bytes with an arbitrary attachment list.
pub struct Raw {
    pub bytes: Vec<u8>,
    pub atts: Vec<Att>,
}
impl Serialize for Raw {
    fn serialize<S: Serializer>(&self, s: S) -> Result<S::Ok, S::Error> {
        for a in &self.atts {
            let _ = match a {
                Att::Tx(t) => t.serialize(Discard),
                Att::Rx(r) => r.serialize(Discard),
                Att::Region(m) => m.serialize(Discard),
            };
        }
        let mut t = s.serialize_tuple(self.bytes.len())?;
        for b in &self.bytes {
            t.serialize_element(b)?;
        }
        t.end()
    }
}
impl<'de> Deserialize<'de> for Raw {
    fn deserialize<D: Deserializer<'de>>(_: D) -> Result<Self, D::Error> {
        Err(serde::de::Error::custom("send-only"))
    }
}

#[derive(Serialize, Deserialize, Debug, PartialEq)]
pub enum E {
    A,
    B(u32),
    C { x: String },
}
#[derive(Serialize, Deserialize)]
pub struct N {
    a: Option<IpcReceiver<u32>>,
    b: Vec<IpcSharedMemory>,
    c: u16,
}
#[derive(Default)]
pub struct Found {
    txs: Vec<IpcSender<u32>>,
    rxs: Vec<IpcReceiver<u32>>,
    regs: Vec<IpcSharedMemory>,
}
pub trait Probeable: for<'de> Deserialize<'de> + Serialize {
    fn take(self, f: &mut Found);
}
macro_rules! plain {
    ($($t:ty),*) => { $(impl Probeable for $t { fn take(self, _: &mut Found) {} })* };
}
plain!(u64, String, Vec<u8>, Vec<u32>, Option<String>, E);
impl Probeable for IpcSender<u32> {
    fn take(self, f: &mut Found) {
        f.txs.push(self)
    }
}
impl Probeable for IpcReceiver<u32> {
    fn take(self, f: &mut Found) {
        f.rxs.push(self)
    }
}
impl Probeable for IpcSharedMemory {
    fn take(self, f: &mut Found) {
        f.regs.push(self)
    }
}
impl Probeable for (IpcSender<u32>, String, IpcSharedMemory) {
    fn take(self, f: &mut Found) {
        f.txs.push(self.0);
        f.regs.push(self.2);
    }
}
impl Probeable for Vec<IpcSender<u32>> {
    fn take(self, f: &mut Found) {
        f.txs.extend(self)
    }
}
impl Probeable for N {
    fn take(self, f: &mut Found) {
        f.rxs.extend(self.a);
        f.regs.extend(self.b);
    }
}
pub const NTYPES: u64 = 12;
const TYPE_NAMES: [&str; 12] = ["u64", "String", "Vec<u8>", "Vec<u32>", "Option<String>", "enum", "IpcSender", "IpcReceiver", "IpcSharedMemory", "(IpcSender,String,IpcSharedMemory)", "Vec<IpcSender>", "struct{Option<IpcReceiver>,Vec<IpcSharedMemory>,u16}"];

/// Encoding of a value of type `ty` in which endpoints are replaced by explicit indices.
fn shadow(ty: u64, r: &mut Rng, ch_idx: &mut dyn FnMut(&mut Rng) -> u64, reg_idx: &mut dyn FnMut(&mut Rng) -> u64) -> Vec<u8> {
    let s = |r: &mut Rng| -> String { (0..r.below(12)).map(|_| (b'a' + r.below(26) as u8) as char).collect() };
    match ty {
        0 => bincode::serialize(&r.next()).unwrap(),
        1 => bincode::serialize(&s(r)).unwrap(),
        2 => bincode::serialize(&(0..r.below(40)).map(|_| r.next() as u8).collect::<Vec<u8>>()).unwrap(),
        3 => bincode::serialize(&(0..r.below(20)).map(|_| r.next() as u32).collect::<Vec<u32>>()).unwrap(),
        4 => bincode::serialize(&if r.chance(1, 2) { Some(s(r)) } else { None }).unwrap(),
        5 => bincode::serialize(&match r.below(3) {
            0 => E::A,
            1 => E::B(r.next() as u32),
            _ => E::C { x: s(r) },
        })
        .unwrap(),
        6 | 7 => bincode::serialize(&ch_idx(r)).unwrap(),
        8 => bincode::serialize(&reg_idx(r)).unwrap(),
        9 => bincode::serialize(&(ch_idx(r), s(r), reg_idx(r))).unwrap(),
        10 => bincode::serialize(&(0..r.below(5)).map(|_| ch_idx(r)).collect::<Vec<u64>>()).unwrap(),
        _ => bincode::serialize(&(if r.chance(2, 3) { Some(ch_idx(r)) } else { None }, (0..r.below(4)).map(|_| reg_idx(r)).collect::<Vec<u64>>(), r.next() as u16)).unwrap(),
    }
}

fn receive<T: Probeable>(rx: IpcReceiver<T>, via_set: bool, undecoded: bool, nmsgs: u32, fd_slots: Option<usize>) {
    // "the receiving program is at its descriptor limit": wait until everything has been sent,
    // then leave only k free descriptor numbers, so the kernel can deliver only k of the attached
    // descriptors (and flags the rest as truncated)
    let mut limit_token = None;
    if let Some(k) = fd_slots {
        let mut n = 0;
        while !hist::events().iter().any(|e| e.op == "sends.done") && n < 400 {
            sim::sleep_ns(50_000);
            n += 1;
        }
        // (only once the sender is through with creating channels - otherwise it would be the
        // harness that runs out of descriptors)
        if hist::events().iter().any(|e| e.op == "sends.done") {
            limit_token = Some(sim::fd_limit_with_free_slots(k));
        }
    }
    receive_inner(rx, via_set, undecoded, nmsgs);
    if let Some(t) = limit_token {
        sim::restore_fd_limit(t);
    }
    hist::log("receiver.done", 0, 0, 0, "");
    // stay alive: thread exit would release the library's per-thread tables and hide what a
    // failed decode left in them
    loop {
        std::thread::park();
    }
}
fn receive_inner<T: Probeable>(rx: IpcReceiver<T>, via_set: bool, undecoded: bool, nmsgs: u32) {
    // the k-th result belongs to the k-th message sent (one result per message, in order)
    let nth = std::cell::Cell::new(0i64);
    let begin = || {
        hist::log("msg.begin", nth.get(), 0, 0, "");
        nth.set(nth.get() + 1);
    };
    let mut handle = |r: Result<T, String>| match r {
        Ok(v) => {
            begin();
            let mut f = Found::default();
            v.take(&mut f);
            hist::log("recv.ok", f.txs.len() as i64, f.rxs.len() as i64, f.regs.len() as i64, "");
            for (i, t) in f.txs.iter().enumerate() {
                let r = t.send(5000 + i as u32);
                hist::log("value.tx", i as i64, r.is_ok() as i64, 0, "");
            }
            for (i, rcv) in f.rxs.iter().enumerate() {
                let tok = rcv.try_recv().ok().map(|v| v as i64).unwrap_or(-1);
                hist::log("value.rx", i as i64, tok, 0, "");
            }
            for (i, g) in f.regs.iter().enumerate() {
                let ok = g.len() == 0 || g.iter().all(|b| *b == g[0]);
                hist::log("value.region", i as i64, g.len() as i64, if g.is_empty() { -1 } else { g[0] as i64 }, if ok { "" } else { "MIXED" });
            }
            drop(f);
        },
        Err(e) => {
            begin();
            hist::log("recv.decode-err", 0, 0, 0, &e);
        },
    };
    if via_set {
        let mut set = IpcReceiverSet::new().unwrap();
        set.add(rx).unwrap();
        let mut got = 0;
        while got < nmsgs {
            let rs = match set.select() {
                Ok(r) => r,
                Err(e) => {
                    hist::log("recv.io-err", 0, 0, 0, &e.to_string());
                    break;
                },
            };
            for r in rs {
                match r {
                    IpcSelectionResult::MessageReceived(_, m) => {
                        got += 1;
                        if undecoded && got == 1 {
                            begin();
                            hist::log("recv.undecoded", 0, 0, 0, "");
                            drop(m);
                        } else {
                            handle(m.to::<T>().map_err(|e| e.to_string()));
                        }
                    },
                    IpcSelectionResult::ChannelClosed(_) => {
                        got = nmsgs;
                    },
                }
            }
        }
    } else {
        for _ in 0..nmsgs {
            match rx.recv() {
                Ok(v) => handle(Ok(v)),
                Err(IpcError::Disconnected) => {
                    hist::log("recv.closed", 0, 0, 0, "");
                    break;
                },
                Err(e) => handle(Err(format!("{:?}", e))),
            }
        }
    }
}

fn run_typed<T: Probeable + 'static>(p: &Value, out: &mut Outcome)
where
    IpcReceiver<T>: Send,
{
    let (tx, rx) = ipc::channel::<T>().unwrap();
    let raw: IpcSender<Raw> = tx.to_opaque().to();
    let via_set = p["via_set"].as_bool().unwrap_or(false);
    let undecoded = p["undecoded"].as_bool().unwrap_or(false) && via_set;
    let msgs: Vec<Value> = p["msgs"].as_array().cloned().unwrap_or_default().into_iter().take(4).collect();
    let n = msgs.len() as u32;
    let fd_slots = p["fd_slots"].as_u64().map(|k| k.min(8) as usize);
    let via_set = via_set && fd_slots.is_none();
    sim::spawn("receiver", None, move || receive::<T>(rx, via_set, undecoded, n, fd_slots));
    // sender (own sim-process id: corruption faults are counted on its transmissions only)
    let (done_tx, done_rx) = crossbeam_channel::unbounded::<()>();
    let msgs2 = msgs.clone();
    sim::spawn("sender", Some(2), move || {
        let mut held: Vec<(u32, IpcSender<u32>)> = vec![];
        let mut cid = 0u32;
        for (mi, m) in msgs2.iter().enumerate() {
            let bytes: Vec<u8> = m["bytes"].as_array().map(|a| a.iter().map(|b| b.as_u64().unwrap_or(0) as u8).collect()).unwrap_or_default();
            let mut atts = vec![];
            for a in m["atts"].as_array().cloned().unwrap_or_default().iter().take(8) {
                cid += 1;
                match a.as_str().unwrap_or("tx") {
                    "tx" => {
                        let (t, r) = ipc::channel::<u32>().unwrap();
                        let c = cid;
                        hist::log("att", mi as i64, c as i64, 0, "tx");
                        sim::spawn(&format!("watcher{}", c), Some(0), move || loop {
                            match r.recv() {
                                Ok(v) => {
                                    hist::log("watch.got", c as i64, v as i64, 0, "");
                                },
                                Err(_) => {
                                    hist::log("watch.closed", c as i64, 0, 0, "");
                                    return;
                                },
                            }
                        });
                        atts.push(Att::Tx(t));
                    },
                    "rx" => {
                        let (t, r) = ipc::channel::<u32>().unwrap();
                        t.send(cid).unwrap();
                        hist::log("att", mi as i64, cid as i64, 0, "rx");
                        held.push((cid, t));
                        atts.push(Att::Rx(r));
                    },
                    _ => {
                        hist::log("att", mi as i64, cid as i64, 0, "region");
                        atts.push(Att::Region(IpcSharedMemory::from_byte(cid as u8, 64 + cid as usize)));
                    },
                }
            }
            hist::log("send.inv", mi as i64, bytes.len() as i64, atts.len() as i64, "");
            if m["corrupt"].is_object() && !cfg!(feature = "inproc") {
                sim::corrupt_next_tx(m["corrupt"]["off"].as_u64().unwrap_or(0), m["corrupt"]["xor"].as_u64().unwrap_or(1) as u8);
            }
            let r = raw.send(Raw { bytes, atts });
            hist::log(if r.is_ok() { "send.ok" } else { "send.err" }, mi as i64, 0, 0, "");
        }
        drop(raw);
        hist::log("sends.done", 0, 0, 0, "");
        // wait until the receiving side is through with everything, then probe what it should have released
        let _ = done_rx.recv();
        for (c, t) in held {
            let r = t.send(1);
            hist::log("probe.rx", c as i64, r.is_ok() as i64, 0, "");
        }
        hist::log("sender.done", 0, 0, 0, "");
    });
    // main: signal the sender once the receiver is done (or dead)
    let mut tries = 0;
    loop {
        let done = hist::events().iter().any(|e| e.op == "receiver.done") || hist::panics().iter().any(|p| p.label == "receiver");
        if done || tries > 400 {
            break;
        }
        sim::sleep_ns(50_000);
        tries += 1;
    }
    sim::sleep_ns(100_000);
    let _ = done_tx.send(());
    let blocked = sim::settle();

    // ------------------------------------------------------------ oracle
    let evs = hist::events();
    for pn in hist::panics() {
        out.viol(&hist::panic_sig(pn), format!("receiving an undecodable message panicked in [{}]: {} at {}", pn.label, pn.msg, pn.loc));
    }
    if !evs.iter().any(|e| e.op == "receiver.done") && hist::panics().is_empty() {
        let b = blocked.iter().find(|b| b.label == "receiver");
        out.viol("hang:recv", format!("the receiver never finished ({})", b.map(|b| b.in_call).unwrap_or("gone")));
    }
    for e in evs.iter().filter(|e| e.op == "recv.io-err") {
        out.viol("io-error:select", format!("select failed: {}", e.s));
    }
    // endpoints inside a decoded value must be attachments of that message: the nonce must reach a watcher
    let receiver_finished = evs.iter().any(|e| e.op == "receiver.done");
    if receiver_finished {
        // (a sender decoded from an attached *receiver* end is still an attached endpoint: socket
        // pairs are bidirectional, its nonce ends up unread at the held sender - not judged)
        // attachments are judged per message when results and messages correspond one to one
        let results = evs.iter().filter(|e| e.op == "msg.begin").count();
        let one_to_one = results == n as usize;
        let msg_of = |seq: u64| -> Option<i64> { if one_to_one { evs.iter().filter(|e| e.op == "msg.begin" && e.seq < seq).last().map(|e| e.a) } else { None } };
        let has_att = |seq: u64, kind: &str| -> bool {
            let mi = msg_of(seq);
            evs.iter().any(|e| e.op == "att" && e.s == kind && mi.map(|m| m == e.a).unwrap_or(true))
        };
        for e in evs.iter().filter(|e| e.op == "value.tx" && e.b == 1) {
            let nonce = 5000 + e.a;
            let any_rx_att = has_att(e.seq, "rx");
            if !any_rx_att && !evs.iter().any(|w| w.op == "watch.got" && w.b == nonce) {
                out.viol("foreign-endpoint:recv", format!("a decoded value contains a sender (position {}) that is not connected to any channel attached to the message", e.a));
            }
        }
        // a decoded receiver must be one of the attached ones: it holds that attachment's token
        // (-1 = nothing queued: only possible if it was decoded from an attached sender's end)
        for e in evs.iter().filter(|e| e.op == "value.rx") {
            let any_tx_att = has_att(e.seq, "tx");
            let mi = msg_of(e.seq);
            let attached = evs.iter().any(|a| a.op == "att" && a.s == "rx" && a.b == e.b && mi.map(|m| m == a.a).unwrap_or(true));
            if !(attached || (e.b == -1 && any_tx_att)) {
                out.viol("foreign-endpoint:recv", format!("a decoded value contains a receiver (position {}) holding token {} - not one of the receivers attached to the messages", e.a, e.b));
            }
        }
        // a decoded region must be one of the attached ones, with its contents (fill byte = id, length 64 + id)
        for e in evs.iter().filter(|e| e.op == "value.region") {
            let id = e.b - 64;
            let mi = msg_of(e.seq);
            let attached = evs.iter().any(|a| a.op == "att" && a.s == "region" && a.b == id && mi.map(|m| m == a.a).unwrap_or(true));
            if !attached || e.s == "MIXED" || e.c != (id as u8) as i64 {
                out.viol("foreign-or-altered-region:recv", format!("a decoded value contains a region (position {}) of length {} starting with byte {}{} - not one of the attached regions with its contents", e.a, e.b, e.c, if e.s == "MIXED" { ", mixed contents" } else { "" }));
            }
        }
        // every attached sender that was not handed to the program must have been released
        for a in evs.iter().filter(|e| e.op == "att" && e.s == "tx") {
            let closed = evs.iter().any(|w| w.op == "watch.closed" && w.a == a.b);
            if !closed && blocked.iter().any(|b| b.label == format!("watcher{}", a.b)) {
                out.viol("attachment-kept-open:sender", format!("the sender attached to message {} (channel {}) is still open somewhere in the receiving process after the message and any decoded value were dropped", a.a, a.b));
            }
        }
        for pr in evs.iter().filter(|e| e.op == "probe.rx" && e.b == 1) {
            out.viol("attachment-kept-open:receiver", format!("a receiver attached to a message (channel {}) is still open in the receiving process after the message and any decoded value were dropped", pr.a));
        }
        let stray = sim::open_received_fds();
        if !stray.is_empty() && hist::panics().is_empty() {
            out.viol("attachment-kept-open:descriptor", format!("{} received descriptor(s) were never closed (ledger ids {:?})", stray.len(), stray));
        }
    }
    let any_err = evs.iter().any(|e| e.op == "recv.decode-err");
    out.nontrivial = any_err || evs.iter().any(|e| e.op == "recv.undecoded");
    out.probe("decode_errors", evs.iter().filter(|e| e.op == "recv.decode-err").count() as u64);
    out.probe("decoded_ok", evs.iter().filter(|e| e.op == "recv.ok").count() as u64);
    out.probe("dropped_undecoded", evs.iter().filter(|e| e.op == "recv.undecoded").count() as u64);
    out.probe("attachments", evs.iter().filter(|e| e.op == "att").count() as u64);
    out.sample = json!({"type": TYPE_NAMES[p["ty"].as_u64().unwrap_or(0).min(11) as usize], "via_set": via_set, "undecoded": undecoded,
        "msgs": msgs.iter().map(|m| json!({"kind": m["kind"], "len": m["bytes"].as_array().map(|a| a.len()), "atts": m["atts"]})).collect::<Vec<_>>(),
        "results": evs.iter().filter(|e| e.op.starts_with("recv.")).map(|e| e.op).collect::<Vec<_>>()});
}

impl Scenario for C16S {
    fn id(&self) -> &'static str {
        "C16"
    }
    fn variants(&self) -> &'static [&'static str] {
        &["os", "inproc"]
    }
    fn count(&self, tier: Tier, variant: &str) -> u64 {
        match (tier, variant) {
            (Tier::Quick, "os") => 72_000,
            (Tier::Quick, _) => 24_000,
            (Tier::Thorough, "os") => 2_400_000,
            (Tier::Thorough, _) => 800_000,
        }
    }
    fn rule(&self) -> &'static str {
        "case = receiver of one of 12 types (integers, strings, vectors, option, enum, sender, receiver, region, tuple and struct combinations) fed 1..3 messages built as raw bytes + raw attachment list (0..4 senders/receivers + 0..4 regions, shuffled): valid encodings; encodings of another type; encodings whose attachment indices are out of range, used twice or leave attachments unreferenced; random bytes of length 0..4096; truncations; in-flight byte corruption injected at the seam into the first packet of the chosen message; endpoints and regions inside a decoded value are probed for being the attached ones (sender: nonce reaches its watcher; receiver: holds its token; region: length and fill byte); received directly or through a receiver set, decoded or dropped undecoded; non-trivial = at least one message failed to decode or was dropped undecoded; distinct = distinct (case, schedule hash)"
    }
    fn died(&self, how: &str, panics: &str) -> Option<Violation> {
        // (signal 14 is the harness's own per-run alarm: not a verdict)
        if how.starts_with("signal") && how != "signal 14" {
            return Some(Violation { sig: format!("abort:{}", how.replace(' ', "")), detail: format!("the receiving process was killed ({}) while handling an undecodable message; panics: {}", how, panics.trim()) });
        }
        None
    }
    fn gen(&self, seed: u64, idx: u64, _tier: Tier, variant: &str) -> Value {
        let mut r = Rng::stream(seed, idx.wrapping_mul(2654435761).wrapping_add(0xC16));
        let mut sim = sim_json(&mut r, seed ^ idx.wrapping_mul(0x9E37));
        let ty = idx % NTYPES;
        let nmsg = r.range(1, 3);
        let mut msgs = vec![];
        let faults: Vec<Value> = vec![];
        for mi in 0..nmsg {
            let nch = r.below(5);
            let nreg = r.below(5);
            let mut atts: Vec<&str> = vec![];
            for _ in 0..nch {
                atts.push(*r.pick(&["tx", "tx", "rx"]));
            }
            for _ in 0..nreg {
                atts.push("region");
            }
            // shuffle
            for i in (1..atts.len()).rev() {
                let j = r.below(i as u64 + 1) as usize;
                atts.swap(i, j);
            }
            let kind = *r.pick(&["valid", "valid", "other-type", "bad-index", "dup-index", "random", "truncated", "corrupt"]);
            let mut next_ch = 0u64;
            let mut next_reg = 0u64;
            let (nch2, nreg2) = (nch, nreg);
            let k2 = kind;
            let mut ch_idx = |r: &mut Rng| -> u64 {
                match k2 {
                    "bad-index" => *r.pick(&[nch2, nch2 + 1, 64, 1 << 32, u64::MAX, u64::MAX - 1]),
                    "dup-index" => 0,
                    _ => {
                        let v = next_ch;
                        next_ch += 1;
                        v
                    },
                }
            };
            let mut reg_idx = |r: &mut Rng| -> u64 {
                match k2 {
                    "bad-index" => *r.pick(&[nreg2, nreg2 + 3, 1 << 40, u64::MAX - 1]),
                    "dup-index" => 0,
                    _ => {
                        let v = next_reg;
                        next_reg += 1;
                        v
                    },
                }
            };
            let enc_ty = if kind == "other-type" { r.below(NTYPES) } else { ty };
            let mut bytes = match kind {
                "random" => {
                    let n = *r.pick(&[0u64, 1, 7, 8, 9, 16, 64, 500, 4096]);
                    (0..n).map(|_| r.next() as u8).collect()
                },
                _ => shadow(enc_ty, &mut r, &mut ch_idx, &mut reg_idx),
            };
            if kind == "truncated" && !bytes.is_empty() {
                let n = r.below(bytes.len() as u64) as usize;
                bytes.truncate(n);
            }
            // in-flight corruption: armed by the sender right before this very message goes out
            // (a transmission index fixed in advance would drift with every token the sender
            // transmits for a receiver attachment and with fragmentation of earlier messages)
            let corrupt = if kind == "corrupt" && variant != "inproc" { json!({"off": r.below(64), "xor": 1 << r.below(8)}) } else { Value::Null };
            msgs.push(json!({"kind": kind, "bytes": bytes, "atts": atts, "corrupt": corrupt}));
        }
        sim["faults"] = json!(faults);
        let via_set = r.chance(1, 3);
        let fd_slots = if variant != "inproc" && r.chance(1, 8) { json!(r.below(3)) } else { Value::Null };
        json!({"sim": sim, "ty": ty, "msgs": msgs, "via_set": via_set, "undecoded": via_set && r.chance(1, 2), "fd_slots": fd_slots})
    }
    fn run(&self, p: &Value) -> Outcome {
        let mut out = Outcome::default();
        start_sim(p);
        match p["ty"].as_u64().unwrap_or(0) {
            0 => run_typed::<u64>(p, &mut out),
            1 => run_typed::<String>(p, &mut out),
            2 => run_typed::<Vec<u8>>(p, &mut out),
            3 => run_typed::<Vec<u32>>(p, &mut out),
            4 => run_typed::<Option<String>>(p, &mut out),
            5 => run_typed::<E>(p, &mut out),
            6 => run_typed::<IpcSender<u32>>(p, &mut out),
            7 => run_typed::<IpcReceiver<u32>>(p, &mut out),
            8 => run_typed::<IpcSharedMemory>(p, &mut out),
            9 => run_typed::<(IpcSender<u32>, String, IpcSharedMemory)>(p, &mut out),
            10 => run_typed::<Vec<IpcSender<u32>>>(p, &mut out),
            _ => run_typed::<N>(p, &mut out),
        }
        out
    }
}
