//! C17 — stopping a router, by shutdown or proxy drop, is clean and complete.
use super::*;
use crate::hist;
use ipc_channel::ipc::{self, IpcSender};
use ipc_channel::router::RouterProxy;
use std::sync::Arc;

pub struct C17S;
pub static C17: C17S = C17S;

struct Guard(u32);
impl Drop for Guard {
    fn drop(&mut self) {
        hist::log("handler.dropped", self.0 as i64, 0, 0, "");
    }
}
fn traffic(tx: IpcSender<Vec<u8>>, route: u32, n: u64, gap_us: u64) {
    for q in 0..n {
        if gap_us > 0 {
            sim::sleep_ns(gap_us * 1000);
        }
        let p = make_payload(route, 0, q as u32, 40);
        hist::log("send.inv", route as i64, q as i64, 0, "");
        let r = tx.send(p);
        hist::log(if r.is_ok() { "send.ok" } else { "send.err" }, route as i64, q as i64, 0, "");
    }
    hist::log("drop.inv", route as i64, 0, 0, "");
    drop(tx);
    hist::log("drop.ret", route as i64, 0, 0, "");
}
fn add(router: &RouterProxy, route: u32, kind: &str, n: u64, gap: u64) {
    let (tx, rx) = ipc::channel::<Vec<u8>>().unwrap();
    hist::log("route.inv", route as i64, 0, 0, kind);
    if kind == "crossbeam" {
        let crx = router.route_ipc_receiver_to_new_crossbeam_receiver(rx);
        sim::spawn(&format!("consumer{}", route), None, move || {
            while let Ok(v) = crx.recv() {
                let ok = check_payload(&v).is_ok();
                hist::log("handled", route as i64, 0, 0, if ok { "" } else { "BAD" });
            }
            hist::log("handler.dropped", route as i64, 0, 0, "crossbeam disconnected");
        });
    } else {
        let g = Guard(route);
        router.add_route(
            rx.to_opaque(),
            Box::new(move |m| {
                let _g = &g;
                let ok = m.to::<Vec<u8>>().map(|v| check_payload(&v).is_ok()).unwrap_or(false);
                hist::log("handled", route as i64, 1, 0, if ok { "" } else { "BAD" });
            }),
        );
    }
    hist::log("route.ret", route as i64, 0, 0, "");
    sim::spawn(&format!("sender{}", route), None, move || traffic(tx, route, n, gap));
}

impl Scenario for C17S {
    fn id(&self) -> &'static str {
        "C17"
    }
    fn variants(&self) -> &'static [&'static str] {
        &["os", "inproc", "hook"]
    }
    fn count(&self, tier: Tier, variant: &str) -> u64 {
        match (tier, variant) {
            (Tier::Quick, "os") => 32_000,
            (Tier::Quick, "hook") => 10_000,
            (Tier::Thorough, "hook") => 300_000,
            (Tier::Quick, _) => 10_000,
            (Tier::Thorough, "os") => 1_400_000,
            (Tier::Thorough, _) => 400_000,
        }
    }
    fn rule(&self) -> &'static str {
        "case = router with 0..16 live routes (callbacks with drop guards, crossbeam forwarding) and traffic in flight, stopped by shutdown() from 1..4 threads racing with add_route from 0..3 other threads, or by dropping the proxy; afterwards further sends on the old routes and further add_route calls; EINTR in the router's wait; seeded schedule; non-trivial = at least one live route when the stop began; distinct = distinct (workload, schedule hash)"
    }
    fn gen(&self, seed: u64, idx: u64, _tier: Tier, variant: &str) -> Value {
        let mut r = Rng::stream(seed, idx.wrapping_mul(2654435761).wrapping_add(0xC17));
        let mut sim = sim_json(&mut r, seed ^ idx.wrapping_mul(0x9E37));
        let mut faults = vec![];
        if variant != "inproc" {
            for _ in 0..r.below(3) {
                faults.push(json!({"k": "eintr", "pid": 0, "nth": r.below(12)}));
            }
        }
        sim["faults"] = json!(faults);
        let nroutes = match r.below(8) {
            0 => 0,
            1..=5 => r.range(1, 4),
            _ => r.range(5, 16),
        };
        let routes: Vec<Value> = (0..nroutes).map(|_| json!({"kind": *r.pick(&["callback", "callback", "crossbeam"]), "n": r.range(0, 8), "gap_us": *r.pick(&[0u64, 0, 100, 1000])})).collect();
        json!({
            "sim": sim, "routes": routes,
            "stop": *r.pick(&["shutdown", "shutdown", "drop"]),
            "stoppers": r.range(1, 4),
            "racers": (0..r.below(4)).map(|_| json!({"kind": *r.pick(&["callback", "crossbeam"]), "n": r.range(0, 4), "delay_us": *r.pick(&[0u64, 0, 50, 500])})).collect::<Vec<_>>(),
            "stop_delay_us": *r.pick(&[0u64, 0, 100, 700, 5000]),
            "late_routes": r.below(3),
        })
    }
    fn died(&self, how: &str, text: &str) -> Option<Violation> {
        // the scenario's main thread makes one library call that may block: dropping the proxy
        if how == "sim-abort" && text.contains("DEADLOCK") {
            let line = text.lines().find(|l| l.contains("'main'")).unwrap_or("").trim().to_string();
            return Some(Violation { sig: "deadlock:proxy-drop".into(), detail: format!("dropping the router's proxy blocked for ever: {}", line) });
        }
        None
    }
    fn run(&self, p: &Value) -> Outcome {
        let mut out = Outcome::default();
        start_sim(p);
        let router = Arc::new(RouterProxy::new());
        let routes: Vec<Value> = p["routes"].as_array().cloned().unwrap_or_default().into_iter().take(16).collect();
        let stop = p["stop"].as_str().unwrap_or("shutdown").to_string();
        for (i, rt) in routes.iter().enumerate() {
            add(&router, i as u32 + 1, rt["kind"].as_str().unwrap_or("callback"), rt["n"].as_u64().unwrap_or(0).min(20), rt["gap_us"].as_u64().unwrap_or(0).min(100_000));
        }
        let live_at_stop = routes.len();
        let racers: Vec<Value> = p["racers"].as_array().cloned().unwrap_or_default().into_iter().take(4).collect();
        let late = p["late_routes"].as_u64().unwrap_or(0).min(4);
        let stop_delay = p["stop_delay_us"].as_u64().unwrap_or(0).min(1_000_000) * 1000;
        if stop == "shutdown" {
            for (k, rc) in racers.iter().enumerate() {
                let r2 = router.clone();
                let rc = rc.clone();
                sim::spawn(&format!("racer{}", k), None, move || {
                    sim::sleep_ns(rc["delay_us"].as_u64().unwrap_or(0).min(100_000) * 1000);
                    add(&r2, 100 + k as u32, rc["kind"].as_str().unwrap_or("callback"), rc["n"].as_u64().unwrap_or(0).min(8), 0);
                });
            }
            let stoppers = p["stoppers"].as_u64().unwrap_or(1).clamp(1, 4);
            for s in 0..stoppers {
                let r2 = router.clone();
                sim::spawn(&format!("stopper{}", s), None, move || {
                    sim::sleep_ns(stop_delay);
                    hist::log("shutdown.inv", s as i64, 0, 0, "");
                    r2.shutdown();
                    hist::log("shutdown.ret", s as i64, 0, 0, "");
                    // idempotent
                    r2.shutdown();
                    hist::log("shutdown2.ret", s as i64, 0, 0, "");
                    // routes offered after shutdown
                    for l in 0..late {
                        add(&r2, 200 + (s * 10 + l) as u32, "callback", 2, 0);
                    }
                });
            }
            drop(router);
        } else {
            sim::sleep_ns(stop_delay);
            hist::log("proxydrop.inv", 0, 0, 0, "");
            drop(router);
            hist::log("proxydrop.ret", 0, 0, 0, "");
        }
        let blocked = sim::settle();

        // ------------------------------------------------------------ oracle
        let evs = hist::events();
        let first_shutdown_inv = evs.iter().find(|e| e.op == "shutdown.inv").map(|e| e.seq);
        let first_shutdown_ret = evs.iter().find(|e| e.op == "shutdown.ret").map(|e| e.seq);
        let stopped_at = first_shutdown_ret.or_else(|| evs.iter().find(|e| e.op == "proxydrop.ret").map(|e| e.seq));
        // no callback is invoked after shutdown returned
        if let Some(t) = first_shutdown_ret {
            for e in evs.iter().filter(|e| e.op == "handled" && e.b == 1 && e.seq > t) {
                out.viol("callback-after-shutdown:router", format!("the callback of route {} was invoked (#{}) after shutdown() had returned (#{})", e.a, e.seq, t));
                break;
            }
        }
        // all routes registered before the stop began: handler dropped by the time shutdown returned
        let registered: Vec<(i64, u64, u64)> = evs.iter().filter(|e| e.op == "route.ret").map(|e| (e.a, evs.iter().find(|x| x.op == "route.inv" && x.a == e.a).map(|x| x.seq).unwrap_or(0), e.seq)).collect();
        for (route, _inv, ret) in &registered {
            let dropped = evs.iter().find(|e| e.op == "handler.dropped" && e.a == *route);
            let invoked = evs.iter().filter(|e| e.op == "handled" && e.a == *route).count();
            let is_callback = !evs.iter().any(|e| e.op == "route.inv" && e.a == *route && e.s == "crossbeam");
            if let (Some(t), Some(si)) = (first_shutdown_ret, first_shutdown_inv) {
                if *ret < si && is_callback {
                    match dropped {
                        Some(d) if d.seq < t => {},
                        _ => out.viol("handler-alive-after-shutdown:router", format!("route {} was registered before shutdown() was called, but its callback had not been dropped when shutdown() returned (#{})", route, t)),
                    }
                }
                // offered after shutdown returned: never invoked
                let inv = evs.iter().find(|x| x.op == "route.inv" && x.a == *route).map(|x| x.seq).unwrap_or(0);
                if inv > t && invoked > 0 {
                    out.viol("late-route-invoked:router", format!("route {} was offered after shutdown() had returned and was still invoked {} times", route, invoked));
                }
            }
            if stopped_at.is_some() && dropped.is_none() {
                let consumer_blocked = blocked.iter().any(|b| b.label == format!("consumer{}", route));
                out.viol(
                    if stop == "drop" { "handler-never-dropped:proxy-drop" } else { "handler-never-dropped:shutdown" },
                    format!("the router was stopped ({}) but the handler of route {} was never dropped{}", stop, route, if consumer_blocked { " - its crossbeam consumer waits for ever" } else { "" }),
                );
            }
            if evs.iter().filter(|e| e.op == "handler.dropped" && e.a == *route).count() > 1 {
                out.viol("double-drop:router", format!("the handler of route {} was dropped twice", route));
            }
        }
        for e in evs.iter().filter(|e| e.op == "handled" && e.s == "BAD") {
            out.viol("torn:router", format!("route {} was handed a damaged message", e.a));
        }
        // the router thread has exited; nobody is blocked
        for b in &blocked {
            if b.label.starts_with("lib@") && stopped_at.is_some() {
                out.viol(if stop == "drop" { "router-still-running:proxy-drop" } else { "router-still-running:shutdown" }, format!("the router thread is still waiting in {} after the router was stopped ({})", b.in_call, stop));
            }
            if b.label.starts_with("stopper") || b.label.starts_with("racer") || b.label == "main" {
                out.viol("deadlock:shutdown", format!("{} blocked forever in {}", b.label, b.in_call));
            }
            if b.label.starts_with("sender") {
                out.viol("hang:send", format!("{} blocked forever in {} after the router was stopped", b.label, b.in_call));
            }
        }
        for pn in hist::panics() {
            out.viol(&hist::panic_sig(pn), format!("panic in [{}]: {} at {}", pn.label, pn.msg, pn.loc));
        }
        out.nontrivial = live_at_stop > 0;
        out.probe("routes", registered.len() as u64);
        out.probe(&format!("stop_{}", stop), 1);
        out.probe("racing_add_route", racers.len() as u64);
        out.probe("handled", evs.iter().filter(|e| e.op == "handled").count() as u64);
        out.probe("send_err_after_stop", evs.iter().filter(|e| e.op == "send.err").count() as u64);
        out.sample = json!({"routes": routes.len(), "stop": stop, "racers": racers.len(), "handled": evs.iter().filter(|e| e.op == "handled").count(), "handlers_dropped": evs.iter().filter(|e| e.op == "handler.dropped").count()});
        out
    }
}
