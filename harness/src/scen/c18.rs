//! C18 — unsafe transport code stays inside its buffers for every message shape.
//! Runs the message shapes of C01, C02, C04, C05, C09, C12, C13, C15 and C16 plus platform-level region
//! probes on the AddressSanitizer build (std's unsafe-precondition checks enabled), with every
//! receive buffer filled with a canary before the kernel writes into it and every buffer handed
//! to the kernel checked against ASan's shadow memory at the seam.
use super::*;

pub struct C18S;
pub static C18: C18S = C18S;

const SUBS: [&str; 10] = ["C01", "C04", "C05", "C12", "C13", "C15", "C16", "platform", "C02", "C09"];

#[cfg(not(feature = "inproc"))]
fn platform_case(p: &Value, out: &mut Outcome) {
    use crate::hist;
    use ipc_channel::platform::{self, OsIpcChannel, OsIpcSharedMemory};
    start_sim(p);
    let mut r = Rng::new(p["pseed"].as_u64().unwrap_or(1));
    let lens: Vec<usize> = p["region_lens"].as_array().map(|a| a.iter().map(|x| x.as_u64().unwrap_or(0).min(1 << 22) as usize).collect()).unwrap_or_default();
    let dlen = p["data_len"].as_u64().unwrap_or(0).min(8 << 20) as usize;
    let nch = p["channels"].as_u64().unwrap_or(0).min(62) as usize;
    let (tx, rx) = platform::channel().unwrap();
    let mut want: Vec<Vec<u8>> = vec![];
    let mut regs = vec![];
    for (i, l) in lens.iter().enumerate() {
        let bytes: Vec<u8> = (0..*l).map(|k| (k as u32 * 11 + i as u32) as u8).collect();
        let g = if i % 2 == 0 { OsIpcSharedMemory::from_bytes(&bytes) } else { OsIpcSharedMemory::from_byte(0x5e, *l) };
        let w = if i % 2 == 0 { bytes } else { vec![0x5e; *l] };
        // zero-length regions must be safe to create, read and clone at this API level too
        if &g[..] != &w[..] {
            out.viol("platform-region-contents:create", format!("region {} of length {} reads back wrong", i, l));
        }
        let c = g.clone();
        if &c[..] != &w[..] {
            out.viol("platform-region-contents:clone", format!("clone of region {} of length {} reads back wrong", i, l));
        }
        let _ = format!("{:?}", &c == &g);
        want.push(w);
        regs.push(g);
    }
    let mut chans = vec![];
    let mut keep = vec![];
    for _ in 0..nch {
        let (t, r2) = platform::channel().unwrap();
        chans.push(OsIpcChannel::Sender(t));
        keep.push(r2);
    }
    let mut data = vec![0u8; dlen];
    r.fill(&mut data);
    let d2 = data.clone();
    sim::spawn("sender", Some(2), move || {
        let res = tx.send(&data, chans, regs);
        hist::log(if res.is_ok() { "send.ok" } else { "send.err" }, 0, 0, 0, &res.err().map(|e| e.to_string()).unwrap_or_default());
    });
    sim::spawn("receiver", None, move || {
        match rx.recv() {
            Ok((d, mut ch, rg)) => {
                let ok = d == d2;
                hist::log("recv.ok", d.len() as i64, ch.len() as i64, rg.len() as i64, if ok { "" } else { "DATA-DIFFERS" });
                for (i, g) in rg.iter().enumerate() {
                    let good = want.get(i).map(|w| &g[..] == &w[..]).unwrap_or(false);
                    hist::log("region", i as i64, g.len() as i64, good as i64, "");
                    let c = g.clone();
                    let _ = c.len();
                }
                for c in ch.iter_mut() {
                    drop(c.to_sender());
                }
            },
            Err(e) => {
                hist::log("recv.err", 0, 0, 0, &e.to_string());
            },
        }
        hist::log("receiver.done", 0, 0, 0, "");
    });
    let blocked = sim::settle();
    let evs = hist::events();
    if let Some(e) = evs.iter().find(|e| e.op == "recv.ok") {
        if e.a as usize != dlen || e.s == "DATA-DIFFERS" {
            out.viol("platform-data:recv", format!("sent {} bytes, received {} ({})", dlen, e.a, e.s));
        }
        if e.b as usize != nch || e.c as usize != lens.len() {
            out.viol("platform-attachments:recv", format!("sent {} channels / {} regions, received {} / {}", nch, lens.len(), e.b, e.c));
        }
    } else if evs.iter().any(|e| e.op == "send.ok") && !blocked.iter().any(|b| b.label == "receiver") && evs.iter().any(|e| e.op == "recv.err") {
        out.viol("platform-recv-failed:recv", evs.iter().find(|e| e.op == "recv.err").map(|e| e.s.clone()).unwrap_or_default());
    }
    for e in evs.iter().filter(|e| e.op == "region" && e.c == 0) {
        out.viol("platform-region-contents:recv", format!("received region {} (length {}) has wrong contents", e.a, e.b));
    }
    for b in &blocked {
        if b.label == "receiver" || b.label == "sender" {
            out.viol(&format!("hang:{}", b.label), format!("{} blocked forever in {}", b.label, b.in_call));
        }
    }
    if !evs.iter().any(|e| e.op == "receiver.done") && !blocked.iter().any(|b| b.label == "receiver") {
        out.viol("receiver-died:recv", "the receiver died (panic / precondition failure while reading a received region)".into());
    }
    drop(keep);
    out.nontrivial = true;
    out.probe("platform_cases", 1);
    out.probe("zero_length_regions", lens.iter().filter(|l| **l == 0).count() as u64);
    out.sample = json!({"sub": "platform", "region_lens": lens, "data_len": dlen, "channels": nch});
}

impl Scenario for C18S {
    fn id(&self) -> &'static str {
        "C18"
    }
    fn variants(&self) -> &'static [&'static str] {
        &["asan"]
    }
    fn count(&self, tier: Tier, _variant: &str) -> u64 {
        match tier {
            Tier::Quick => 20_000,
            Tier::Thorough => 480_000,
        }
    }
    fn rule(&self) -> &'static str {
        "case = one case of the C01 / C02 / C04 / C05 / C09 / C12 / C13 / C15 / C16 generators (data lengths around every buffer boundary, 0..64+ attachments, ENOBUFS retries, crashed and truncated transfers, corrupt payloads) or a platform-level case (regions of length 0, 1, odd, page +-1 created, cloned, sent over a platform channel next to 0..62 channels and a data part around the fragment boundaries), executed on the AddressSanitizer build with std's unsafe-precondition checks on, canary-filled receive buffers and shadow-memory checks of every buffer handed to the kernel; non-trivial = every case (all exercise unsafe transport code); distinct = distinct (sub-case, schedule hash)"
    }
    fn died(&self, how: &str, panics: &str) -> Option<Violation> {
        // (signal 14 is the harness's own per-run alarm: not a verdict)
        if (how.starts_with("signal") && how != "signal 14") || how == "exit 1" {
            let what = panics.split('|').map(|s| s.trim()).find(|l| l.contains("AddressSanitizer") || l.contains("unsafe precondition") || l.contains("SUMMARY")).unwrap_or("process killed");
            let short: String = what.chars().filter(|c| !c.is_ascii_digit()).take(70).collect();
            return Some(Violation { sig: format!("memory-error:{}", short.trim()), detail: format!("the process was killed ({}) while running transport code: {}", how, panics.trim()) });
        }
        None
    }
    fn gen(&self, seed: u64, idx: u64, tier: Tier, _variant: &str) -> Value {
        let sub = SUBS[(idx % SUBS.len() as u64) as usize];
        let mut r = Rng::stream(seed, idx.wrapping_mul(2654435761).wrapping_add(0xC18));
        let mut p = if sub == "platform" {
            let mut sim = sim_json(&mut r, seed ^ idx.wrapping_mul(0x9E37));
            let (first, follow) = super::util::predict_frag(sim["sndbuf"].as_u64(), false);
            let n = r.range(0, 6);
            let lens: Vec<u64> = (0..n).map(|_| *r.pick(&[0u64, 0, 1, 3, 4095, 4096, 4097, 8191, 8193, 100_003])).collect();
            let dlen = match r.below(6) {
                0 => 0,
                1 => r.range(1, 100),
                2 => ((first + r.below(3) as usize * follow) as i64 + r.below(33) as i64 - 16).max(0) as u64,
                3 => r.range(0, 4 * follow as u64),
                _ => r.range(0, 3000),
            };
            // transient refusals re-split the message and re-send its first packet
            sim["faults"] = if r.chance(1, 3) { json!((0..r.range(1, 2)).map(|_| json!({"k": "txerr", "pid": 2, "nth": r.below(4), "errno": libc::ENOBUFS})).collect::<Vec<_>>()) } else { json!([]) };
            json!({"sim": sim, "region_lens": lens, "data_len": dlen, "channels": if r.chance(1, 4) { r.range(50, 62) } else { r.range(0, 6) }, "pseed": r.next() >> 4})
        } else {
            let sc = super::lookup(sub).unwrap();
            let n = sc.count(tier, "os").max(1);
            let sub_idx = (idx / SUBS.len() as u64).wrapping_mul(7919) % n;
            sc.gen(seed, sub_idx, tier, "os")
        };
        p["sub"] = json!(sub);
        p["sim"]["canary"] = json!(true);
        p
    }
    #[cfg(feature = "inproc")]
    fn run(&self, _p: &Value) -> Outcome {
        Outcome::default()
    }
    #[cfg(not(feature = "inproc"))]
    fn run(&self, p: &Value) -> Outcome {
        let sub = p["sub"].as_str().unwrap_or("platform").to_string();
        let mut out = if sub == "platform" {
            let mut o = Outcome::default();
            platform_case(p, &mut o);
            o
        } else {
            let mut o = super::lookup(&sub).unwrap().run(p);
            // the sub-scenario's own verdicts are kept, labelled with their origin
            for v in o.violations.iter_mut() {
                v.sig = format!("{}/{}", sub, v.sig);
            }
            o.sample = json!({"sub": sub, "case": o.sample});
            o
        };
        let gl = sim::g();
        if gl.stats.p_poisoned > 0 {
            out.viol("poisoned-buffer:seam", format!("{} ({} occurrences)", gl.poison_note, gl.stats.p_poisoned));
        }
        for pn in crate::hist::panics() {
            if pn.msg.contains("unsafe precondition") {
                out.viol("unsafe-precondition:panic", format!("{} at {}", pn.msg, pn.loc));
            }
        }
        out.nontrivial = true;
        out.probe(&format!("sub_{}", sub), 1);
        out
    }
}
