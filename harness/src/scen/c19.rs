//! C19 — all transports give the same answers to the same single-process program, namely the
//! answers of an ideal unbounded FIFO channel (executable reference model).
//! The program is generated online against the model from the case's seed, so every variant
//! (OS, memfd, in-process) executes the same operations as long as it agrees with the model.
use super::*;
use crate::hist;
use ipc_channel::ipc::{self, IpcError, IpcOneShotServer, IpcReceiver, IpcReceiverSet, IpcSelectionResult, IpcSender, IpcSharedMemory, TryRecvError};
use serde::{Deserialize, Serialize};
use std::collections::{BTreeMap, VecDeque};
use std::time::Duration;

pub struct C19S;
pub static C19: C19S = C19S;

#[derive(Serialize, Deserialize)]
pub enum Msg {
    Plain(u64),
    Tx(u64, u32, IpcSender<Msg>),
    Rx(u64, u32, IpcReceiver<Msg>),
    Region(u64, IpcSharedMemory),
}
#[derive(Clone, Debug, PartialEq)]
enum MK {
    Plain,
    Tx(u32),
    Rx(u32),
    Region,
}
#[derive(Clone, Debug)]
struct MM {
    id: u64,
    k: MK,
}
#[derive(Clone, Debug, PartialEq)]
enum Loc {
    Held,
    InSet,
    InServer,
    InTransit(u32),
    Dead,
}
#[derive(Clone, Debug)]
struct MChan {
    q: VecDeque<MM>,
    held_senders: u32,
    loc: Loc,
}
struct Model {
    ch: Vec<MChan>,
}
impl Model {
    fn live(&self, c: u32) -> bool {
        match self.ch[c as usize].loc {
            Loc::Held | Loc::InSet | Loc::InServer => true,
            Loc::InTransit(carrier) => self.live(carrier),
            Loc::Dead => false,
        }
    }
    fn alive_senders(&self, d: u32) -> u32 {
        let mut n = self.ch[d as usize].held_senders;
        for (c, ch) in self.ch.iter().enumerate() {
            if self.live(c as u32) {
                n += ch.q.iter().filter(|m| m.k == MK::Tx(d)).count() as u32;
            }
        }
        n
    }
    fn disconnected(&self, c: u32) -> bool {
        self.ch[c as usize].q.is_empty() && self.alive_senders(c) == 0
    }
    /// the receiver of c ceases to exist: its queue is destroyed, recursively
    fn kill(&mut self, c: u32) {
        self.ch[c as usize].loc = Loc::Dead;
        let q: Vec<MM> = self.ch[c as usize].q.drain(..).collect();
        for m in q {
            if let MK::Rx(d) = m.k {
                self.kill(d);
            }
        }
    }
}
fn region_bytes(id: u64) -> Vec<u8> {
    (0..(id % 300)).map(|i| (i as u64 * 7 + id) as u8).collect()
}

struct Prog {
    senders: Vec<(u32, IpcSender<Msg>)>,
    receivers: BTreeMap<u32, IpcReceiver<Msg>>,
    set: Option<IpcReceiverSet>,
    set_ids: BTreeMap<u64, u32>,
    servers: BTreeMap<u32, IpcOneShotServer<Msg>>,
    names: BTreeMap<u32, String>,
    next_id: u64,
}

fn norm(r: Result<Msg, TryRecvError>) -> (String, Option<Msg>) {
    match r {
        Ok(m) => ("msg".into(), Some(m)),
        Err(TryRecvError::Empty) => ("empty".into(), None),
        Err(TryRecvError::IpcError(IpcError::Disconnected)) => ("disconnected".into(), None),
        Err(e) => (format!("error({:?})", e), None),
    }
}

impl Scenario for C19S {
    fn id(&self) -> &'static str {
        "C19"
    }
    fn variants(&self) -> &'static [&'static str] {
        &["os", "memfd", "inproc"]
    }
    fn count(&self, tier: Tier, _variant: &str) -> u64 {
        match tier {
            Tier::Quick => 60_000,
            Tier::Thorough => 2_000_000,
        }
    }
    fn rule(&self) -> &'static str {
        "case = deterministic single-threaded program of <=60 operations over <=6 channels (create, clone, drop, send plain / with embedded sender / embedded receiver / region, recv, try_recv, try_recv_timeout with virtual time, add to receiver set, select, one-shot server new/connect/accept, drop receiver / set, time gaps) generated online against the reference model so that only operations with a defined outcome are issued; the same seeds run on the OS, memfd and in-process builds and every result is compared with the model (and therefore with the other builds); non-trivial = >=10 operations with at least one endpoint transfer or set/server operation; distinct = distinct program (hash of the operation/result log)"
    }
    fn died(&self, how: &str, text: &str) -> Option<Violation> {
        if how == "sim-abort" && text.contains("DEADLOCK") {
            let line = text.lines().find(|l| l.contains("'main'")).unwrap_or("").trim().to_string();
            return Some(Violation { sig: "blocks-where-model-returns:call".into(), detail: format!("the program's only thread blocked for ever in a call for which the reference model defines an immediate outcome: {}", line) });
        }
        None
    }
    fn gen(&self, seed: u64, idx: u64, _tier: Tier, _variant: &str) -> Value {
        // must not depend on the variant: all builds run the same programs
        let mut r = Rng::stream(seed, idx.wrapping_mul(2654435761).wrapping_add(0xC19));
        let mut sim = sim_json(&mut r, seed ^ idx.wrapping_mul(0x9E37));
        sim["sndbuf"] = Value::Null;
        sim["policy"] = json!({"kind": "baseline"});
        json!({"sim": sim, "pseed": r.next() >> 4, "nops": r.range(5, 60)})
    }
    fn run(&self, p: &Value) -> Outcome {
        let mut out = Outcome::default();
        start_sim(p);
        let mut r = Rng::new(p["pseed"].as_u64().unwrap_or(1));
        let nops = p["nops"].as_u64().unwrap_or(10).min(60);
        let mut m = Model { ch: vec![] };
        let mut pg = Prog { senders: vec![], receivers: BTreeMap::new(), set: None, set_ids: BTreeMap::new(), servers: BTreeMap::new(), names: BTreeMap::new(), next_id: 1 };
        let mut transfers = 0u64;
        let mut connected: Vec<u32> = vec![];
        let mut log: Vec<String> = vec![];
        macro_rules! diverge {
            ($op:expr, $($arg:tt)*) => {{
                let d = format!($($arg)*);
                out.viol(&format!("diverges-from-model:{}", $op), format!("operation {} of the program: {} | program so far: {}", log.len(), d, log.join("; ")));
                break;
            }};
        }
        let t0 = sim::now_ns();
        for _step in 0..nops {
            let nch = m.ch.len() as u32;
            let held_rx: Vec<u32> = pg.receivers.keys().copied().collect();
            let op = r.below(100);
            if op < 8 || nch == 0 {
                if nch >= 6 {
                    continue;
                }
                let (tx, rx) = ipc::channel::<Msg>().unwrap();
                m.ch.push(MChan { q: VecDeque::new(), held_senders: 1, loc: Loc::Held });
                pg.senders.push((nch, tx));
                pg.receivers.insert(nch, rx);
                log.push(format!("new c{}", nch));
            } else if op < 14 {
                if pg.senders.is_empty() {
                    continue;
                }
                let i = r.below(pg.senders.len() as u64) as usize;
                let (c, t) = (pg.senders[i].0, pg.senders[i].1.clone());
                m.ch[c as usize].held_senders += 1;
                pg.senders.push((c, t));
                log.push(format!("clone tx c{}", c));
            } else if op < 24 {
                if pg.senders.is_empty() {
                    continue;
                }
                let i = r.below(pg.senders.len() as u64) as usize;
                let (c, t) = pg.senders.remove(i);
                drop(t);
                m.ch[c as usize].held_senders -= 1;
                log.push(format!("drop tx c{}", c));
            } else if op < 26 {
                // burst: many plain messages pile up on one channel (still <= 64 queued)
                if pg.senders.is_empty() {
                    continue;
                }
                let i = r.below(pg.senders.len() as u64) as usize;
                let c = pg.senders[i].0;
                let n = r.range(20, 45);
                if m.ch[c as usize].q.len() as u64 + n > 64 || !m.live(c) {
                    continue;
                }
                let mut bad = None;
                for _ in 0..n {
                    let id = pg.next_id;
                    pg.next_id += 1;
                    if pg.senders[i].1.send(Msg::Plain(id)).is_err() {
                        bad = Some(id);
                        break;
                    }
                    m.ch[c as usize].q.push_back(MM { id, k: MK::Plain });
                }
                log.push(format!("burst c{} x{}", c, n));
                if let Some(id) = bad {
                    diverge!("send", "send #{} of a burst on channel {} failed although its receiver exists", id, c);
                }
            } else if op < 50 {
                // send
                if pg.senders.is_empty() {
                    continue;
                }
                let i = r.below(pg.senders.len() as u64) as usize;
                let c = pg.senders[i].0;
                if m.ch[c as usize].q.len() >= 64 {
                    continue;
                }
                let id = pg.next_id;
                pg.next_id += 1;
                let kind = r.below(10);
                let (msg, mk) = if kind < 5 {
                    (Msg::Plain(id), MK::Plain)
                } else if kind < 7 {
                    // embed a sender handle of a higher channel (acyclic)
                    match pg.senders.iter().position(|s| s.0 > c) {
                        Some(j) => {
                            let (d, t) = pg.senders.remove(j);
                            m.ch[d as usize].held_senders -= 1;
                            transfers += 1;
                            (Msg::Tx(id, d, t), MK::Tx(d))
                        },
                        None => (Msg::Plain(id), MK::Plain),
                    }
                } else if kind < 9 {
                    match held_rx.iter().find(|d| **d > c) {
                        Some(&d) => {
                            let rx = pg.receivers.remove(&d).unwrap();
                            transfers += 1;
                            (Msg::Rx(id, d, rx), MK::Rx(d))
                        },
                        None => (Msg::Plain(id), MK::Plain),
                    }
                } else {
                    (Msg::Region(id, IpcSharedMemory::from_bytes(&region_bytes(id))), MK::Region)
                };
                // the sender handle to use may have moved (we removed an element): look it up again
                let si = match pg.senders.iter().position(|s| s.0 == c) {
                    Some(x) => x,
                    None => {
                        // we embedded our only handle of c's... cannot happen (d > c), but be safe
                        continue;
                    },
                };
                let expect_ok = m.live(c);
                let res = pg.senders[si].1.send(msg);
                log.push(format!("send c{} #{} {:?} -> {}", c, id, mk, if res.is_ok() { "ok" } else { "err" }));
                if res.is_ok() != expect_ok {
                    diverge!("send", "send on channel {} returned {} but the model says {} (receiver exists: {})", c, if res.is_ok() { "Ok" } else { "Err" }, if expect_ok { "Ok" } else { "Err" }, expect_ok);
                }
                if expect_ok {
                    if let MK::Rx(d) = mk {
                        m.ch[d as usize].loc = Loc::InTransit(c);
                    }
                    m.ch[c as usize].q.push_back(MM { id, k: mk });
                } else if let MK::Rx(d) = mk {
                    // the value was consumed by the failed send: the receiver is gone
                    m.kill(d);
                }
            } else if op < 75 {
                // receive on a held receiver
                if held_rx.is_empty() {
                    continue;
                }
                let c = *r.pick(&held_rx);
                let mode = r.below(3);
                let would_block = m.ch[c as usize].q.is_empty() && !m.disconnected(c);
                if mode == 0 && would_block {
                    continue;
                }
                let d_us = *r.pick(&[0u64, 300, 1000, 2500]);
                let t_before = sim::now_ns();
                let res = {
                    let rx = &pg.receivers[&c];
                    match mode {
                        0 => rx.recv().map_err(TryRecvError::IpcError),
                        1 => rx.try_recv(),
                        _ => rx.try_recv_timeout(Duration::from_micros(d_us)),
                    }
                };
                let elapsed = sim::now_ns() - t_before;
                let (what, msg) = norm(res);
                let mname = ["recv", "try_recv", "try_recv_timeout"][mode as usize];
                let expect = if let Some(h) = m.ch[c as usize].q.front() {
                    format!("msg#{}", h.id)
                } else if m.disconnected(c) {
                    "disconnected".to_string()
                } else {
                    "empty".to_string()
                };
                let got = match &msg {
                    Some(Msg::Plain(id)) | Some(Msg::Tx(id, ..)) | Some(Msg::Rx(id, ..)) | Some(Msg::Region(id, _)) => format!("msg#{}", id),
                    None => what.clone(),
                };
                log.push(format!("{} c{} -> {}", mname, c, got));
                if got != expect {
                    diverge!(mname, "{} on channel {} returned {} but the model says {}", mname, c, got, expect);
                }
                if mode == 2 && got == "empty" && elapsed < (d_us / 1000) * 1_000_000 {
                    diverge!(mname, "try_recv_timeout({}us) reported empty after {} ns", d_us, elapsed);
                }
                if let Some(msg) = msg {
                    let h = m.ch[c as usize].q.pop_front().unwrap();
                    match (msg, h.k) {
                        (Msg::Plain(_), MK::Plain) => {},
                        (Msg::Region(id, g), MK::Region) => {
                            if &g[..] != &region_bytes(id)[..] {
                                diverge!(mname, "region of message {} has wrong contents", id);
                            }
                        },
                        (Msg::Tx(_, d, t), MK::Tx(d2)) if d == d2 => {
                            m.ch[d as usize].held_senders += 1;
                            pg.senders.push((d, t));
                        },
                        (Msg::Rx(_, d, rx), MK::Rx(d2)) if d == d2 => {
                            m.ch[d as usize].loc = Loc::Held;
                            pg.receivers.insert(d, rx);
                        },
                        (_, k) => diverge!(mname, "message {} has the wrong kind (model: {:?})", h.id, k),
                    }
                }
            } else if op < 81 {
                // add a held receiver to the set
                if held_rx.is_empty() {
                    continue;
                }
                let c = *r.pick(&held_rx);
                if pg.set.is_none() {
                    pg.set = Some(IpcReceiverSet::new().unwrap());
                }
                let rx = pg.receivers.remove(&c).unwrap();
                let id = pg.set.as_mut().unwrap().add(rx).unwrap();
                if pg.set_ids.contains_key(&id) {
                    diverge!("add", "add returned id {} that another member of the set has", id);
                }
                pg.set_ids.insert(id, c);
                m.ch[c as usize].loc = Loc::InSet;
                transfers += 1;
                log.push(format!("add c{} -> id{}", c, id));
            } else if op < 89 {
                // select until the model says nothing is pending any more
                if pg.set.is_none() {
                    continue;
                }
                let pending = |m: &Model, ids: &BTreeMap<u64, u32>| -> usize { ids.values().filter(|c| !m.ch[**c as usize].q.is_empty() || m.disconnected(**c)).count() };
                let mut rounds = 0;
                let mut failed = None;
                while pending(&m, &pg.set_ids) > 0 && rounds < 200 {
                    rounds += 1;
                    let rs = match pg.set.as_mut().unwrap().select() {
                        Ok(x) => x,
                        Err(e) => {
                            failed = Some(format!("select failed: {}", e));
                            break;
                        },
                    };
                    for ev in rs {
                        match ev {
                            IpcSelectionResult::MessageReceived(id, om) => {
                                let c = match pg.set_ids.get(&id) {
                                    Some(c) => *c,
                                    None => {
                                        failed = Some(format!("select reported unknown id {}", id));
                                        break;
                                    },
                                };
                                let msg: Msg = match om.to() {
                                    Ok(x) => x,
                                    Err(e) => {
                                        failed = Some(format!("decode failed: {}", e));
                                        break;
                                    },
                                };
                                let h = match m.ch[c as usize].q.pop_front() {
                                    Some(h) => h,
                                    None => {
                                        failed = Some(format!("select reported a message on channel {} whose queue is empty in the model", c));
                                        break;
                                    },
                                };
                                let gid = match &msg {
                                    Msg::Plain(i) | Msg::Tx(i, ..) | Msg::Rx(i, ..) | Msg::Region(i, _) => *i,
                                };
                                log.push(format!("select -> id{} c{} msg#{}", id, c, gid));
                                if gid != h.id {
                                    failed = Some(format!("select reported message {} on channel {} but the model's next message is {}", gid, c, h.id));
                                    break;
                                }
                                match (msg, h.k) {
                                    (Msg::Plain(_), MK::Plain) => {},
                                    (Msg::Region(id, g), MK::Region) => {
                                        if &g[..] != &region_bytes(id)[..] {
                                            failed = Some(format!("region of message {} has wrong contents", id));
                                            break;
                                        }
                                    },
                                    (Msg::Tx(_, d, t), MK::Tx(d2)) if d == d2 => {
                                        m.ch[d as usize].held_senders += 1;
                                        pg.senders.push((d, t));
                                    },
                                    (Msg::Rx(_, d, rx), MK::Rx(d2)) if d == d2 => {
                                        m.ch[d as usize].loc = Loc::Held;
                                        pg.receivers.insert(d, rx);
                                    },
                                    (_, k) => {
                                        failed = Some(format!("message {} has the wrong kind (model: {:?})", h.id, k));
                                        break;
                                    },
                                }
                            },
                            IpcSelectionResult::ChannelClosed(id) => {
                                let c = match pg.set_ids.remove(&id) {
                                    Some(c) => c,
                                    None => {
                                        failed = Some(format!("select reported closure of unknown id {}", id));
                                        break;
                                    },
                                };
                                log.push(format!("select -> id{} c{} closed", id, c));
                                if !m.disconnected(c) {
                                    failed = Some(format!("select reported channel {} closed but the model has {} queued messages and {} senders", c, m.ch[c as usize].q.len(), m.alive_senders(c)));
                                    break;
                                }
                                m.kill(c);
                            },
                        }
                    }
                    if failed.is_some() {
                        break;
                    }
                }
                if failed.is_none() && pending(&m, &pg.set_ids) > 0 {
                    failed = Some(format!("select returned {} times without reporting {} event(s) the model has pending", rounds, pending(&m, &pg.set_ids)));
                }
                if let Some(f) = failed {
                    diverge!("select", "{}", f);
                }
            } else if op < 93 {
                // drop a held receiver
                if held_rx.is_empty() {
                    continue;
                }
                let c = *r.pick(&held_rx);
                drop(pg.receivers.remove(&c));
                m.kill(c);
                log.push(format!("drop rx c{}", c));
            } else if op < 95 {
                if let Some(s) = pg.set.take() {
                    drop(s);
                    let cs: Vec<u32> = pg.set_ids.values().copied().collect();
                    for c in cs {
                        m.kill(c);
                    }
                    pg.set_ids.clear();
                    log.push("drop set".into());
                }
            } else if op < 98 {
                // one-shot server: new / connect / accept
                let pending_srv: Vec<u32> = pg.servers.keys().copied().collect();
                let sub = r.below(3);
                if sub == 0 && nch < 6 {
                    let (srv, name) = IpcOneShotServer::<Msg>::new().unwrap();
                    m.ch.push(MChan { q: VecDeque::new(), held_senders: 0, loc: Loc::InServer });
                    pg.servers.insert(nch, srv);
                    pg.names.insert(nch, name);
                    transfers += 1;
                    log.push(format!("server c{}", nch));
                } else if sub == 1 && !pending_srv.is_empty() {
                    let c = *r.pick(&pending_srv);
                    // at most one connection per server (the listen backlog is not part of the model)
                    if connected.contains(&c) {
                        continue;
                    }
                    connected.push(c);
                    match IpcSender::<Msg>::connect(pg.names[&c].clone()) {
                        Ok(t) => {
                            m.ch[c as usize].held_senders += 1;
                            pg.senders.push((c, t));
                            log.push(format!("connect c{}", c));
                        },
                        Err(e) => diverge!("connect", "connect to the live server of channel {} failed: {}", c, e),
                    }
                } else if sub == 2 {
                    let ready: Vec<u32> = pending_srv.iter().copied().filter(|c| !m.ch[*c as usize].q.is_empty()).collect();
                    if ready.is_empty() {
                        continue;
                    }
                    let c = *r.pick(&ready);
                    let srv = pg.servers.remove(&c).unwrap();
                    match srv.accept() {
                        Ok((rx, first)) => {
                            let h = m.ch[c as usize].q.pop_front().unwrap();
                            let gid = match &first {
                                Msg::Plain(i) | Msg::Tx(i, ..) | Msg::Rx(i, ..) | Msg::Region(i, _) => *i,
                            };
                            log.push(format!("accept c{} -> msg#{}", c, gid));
                            if gid != h.id {
                                diverge!("accept", "accept returned message {} but the client's first message is {}", gid, h.id);
                            }
                            match (first, h.k) {
                                (Msg::Plain(_), MK::Plain) => {},
                                (Msg::Region(id, g), MK::Region) => {
                                    if &g[..] != &region_bytes(id)[..] {
                                        diverge!("accept", "region of message {} has wrong contents", id);
                                    }
                                },
                                (Msg::Tx(_, d, t), MK::Tx(d2)) if d == d2 => {
                                    m.ch[d as usize].held_senders += 1;
                                    pg.senders.push((d, t));
                                },
                                (Msg::Rx(_, d, r2), MK::Rx(d2)) if d == d2 => {
                                    m.ch[d as usize].loc = Loc::Held;
                                    pg.receivers.insert(d, r2);
                                },
                                (_, k) => diverge!("accept", "the first message {} has the wrong kind (model: {:?})", h.id, k),
                            }
                            m.ch[c as usize].loc = Loc::Held;
                            pg.receivers.insert(c, rx);
                        },
                        Err(e) => diverge!("accept", "accept on channel {} failed: {}", c, e),
                    }
                }
            } else {
                sim::sleep_ns(*r.pick(&[100_000u64, 1_000_000, 50_000_000]));
                log.push("gap".into());
            }
        }
        // final sweep: every held receiver must agree with the model once more (non-blocking)
        if out.violations.is_empty() {
            let held: Vec<u32> = pg.receivers.keys().copied().collect();
            for c in held {
                let (what, msg) = norm(pg.receivers[&c].try_recv());
                let expect = if let Some(h) = m.ch[c as usize].q.front() {
                    format!("msg#{}", h.id)
                } else if m.disconnected(c) {
                    "disconnected".to_string()
                } else {
                    "empty".to_string()
                };
                let got = match &msg {
                    Some(Msg::Plain(id)) | Some(Msg::Tx(id, ..)) | Some(Msg::Rx(id, ..)) | Some(Msg::Region(id, _)) => format!("msg#{}", id),
                    None => what,
                };
                if got != expect {
                    out.viol("diverges-from-model:final-try_recv", format!("final try_recv on channel {} returned {} but the model says {} | program: {}", c, got, expect, log.join("; ")));
                    break;
                }
                if let Some(msg) = msg {
                    m.ch[c as usize].q.pop_front();
                    // the message is dropped right here together with what it carries
                    if let Msg::Rx(_, d, rx) = msg {
                        drop(rx);
                        m.kill(d);
                    }
                }
            }
        }
        for pn in hist::panics() {
            out.viol(&hist::panic_sig(pn), format!("panic: {} at {} | program: {}", pn.msg, pn.loc, log.join("; ")));
        }
        let mut h = 0xcbf29ce484222325u64;
        for l in &log {
            for b in l.bytes() {
                h ^= b as u64;
                h = h.wrapping_mul(0x100000001b3);
            }
        }
        hist::log("program", h as i64, log.len() as i64, 0, "");
        out.nontrivial = log.len() >= 10 && transfers > 0;
        out.probe("operations", log.len() as u64);
        out.probe("endpoint_transfers_set_server_ops", transfers);
        out.probe("virtual_ms", (sim::now_ns() - t0) / 1_000_000);
        out.sample = json!({"operations": log.len(), "program_hash": format!("{:016x}", h), "first_ops": log.iter().take(12).collect::<Vec<_>>()});
        drop(pg);
        out
    }
}
