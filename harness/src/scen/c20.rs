//! C20 — a receiver turned into an async stream yields the same messages, then ends.
use super::*;

pub struct C20S;
pub static C20: C20S = C20S;

impl Scenario for C20S {
    fn id(&self) -> &'static str {
        "C20"
    }
    fn variants(&self) -> &'static [&'static str] {
        &["asy", "asyhook"]
    }
    fn count(&self, tier: Tier, variant: &str) -> u64 {
        match (tier, variant) {
            (Tier::Quick, "asy") => 24_000,
            (Tier::Quick, _) => 30_000,
            (Tier::Thorough, "asy") => 800_000,
            (Tier::Thorough, _) => 300_000,
        }
    }
    fn rule(&self) -> &'static str {
        "case = 1..32 receivers converted with to_stream from 1..8 threads, 0..50 messages per channel queued before the conversion and more sent afterwards (with virtual delays; one unfocused case in ten: a backlog of 100..272 tiny messages on one channel whose senders are all gone before the conversion), senders dropped or held or living in sim-processes that die at the k-th system call of their last send, consumers using futures::executor::block_on or polling by hand with a counting waker and parking, some streams dropped early; EINTR / short batches in the routing thread's wait; seeded schedule; non-trivial = >=2 streams and (messages queued before conversion or >=2 converting threads); distinct = distinct (workload, schedule hash)"
    }
    fn gen(&self, seed: u64, idx: u64, _tier: Tier, _variant: &str) -> Value {
        let mut r = Rng::stream(seed, idx.wrapping_mul(2654435761).wrapping_add(0xC20));
        let mut sim = sim_json(&mut r, seed ^ idx.wrapping_mul(0x9E37));
        let many = r.chance(1, 5);
        sim["sndbuf"] = if many { Value::Null } else { gen_sndbuf(&mut r) };
        let mut faults = vec![];
        for _ in 0..r.below(4) {
            if r.chance(1, 2) {
                faults.push(json!({"k": "eintr", "pid": 0, "nth": r.below(16)}));
            } else {
                faults.push(json!({"k": "short", "pid": 0, "nth": r.below(16), "max": r.range(1, 4)}));
            }
        }
        sim["faults"] = json!(faults);
        let n = match r.below(10) {
            0..=4 => r.range(1, 4),
            5..=7 => r.range(5, 12),
            _ => r.range(13, 32),
        };
        let nthreads = r.range(1, 8.min(n));
        let streams: Vec<Value> = (0..n)
            .map(|_| {
                let pre = if many && r.chance(1, 3) { r.range(10, 50) } else if r.chance(1, 2) { r.range(0, 4) } else { 0 };
                json!({
                    "pre": pre, "post": r.range(0, 5), "gap_us": *r.pick(&[0u64, 0, 100, 1500]), "hold": r.chance(1, 6),
                    "consumer": *r.pick(&["block_on", "block_on", "manual"]),
                    "drop_after": if r.chance(1, 8) { json!(r.below(3)) } else { Value::Null },
                    "thread": r.below(nthreads), "big": r.chance(1, 10) && !many,
                    "proc": n <= 12 && r.chance(1, 5), "crash_at": if r.chance(1, 2) { json!(r.below(9)) } else { Value::Null },
                })
            })
            .collect();
        if r.chance(if _variant == "asyhook" { 3 } else { 1 }, 4) {
            // focused family: few streams converted from two threads back to back while traffic for
            // an already parked consumer is in flight - the window in which a wake-up for the routing
            // thread can be coalesced with, or overtaken by, another conversion
            let k = r.range(3, 5);
            let streams: Vec<Value> = (0..k)
                .map(|i| {
                    json!({"pre": if i == 0 { 0 } else { r.range(0, 3) }, "post": if i == 0 { r.range(1, 4) } else { r.below(3) }, "gap_us": 0, "hold": r.chance(1, 4),
                           "consumer": if i == 0 { "manual" } else { *r.pick(&["block_on", "manual"]) }, "drop_after": Value::Null,
                           "thread": if i + 1 == k { 1 } else { 0 }, "big": false})
                })
                .collect();
            return json!({"sim": sim, "streams": streams, "threads": 2, "prepared": r.chance(2, 3)});
        }
        let mut streams = streams;
        if r.chance(1, 10) {
            // backlog stream: hundreds of tiny messages queued and every sender gone before the
            // conversion - one wake-up of the routing thread has to drain them all and see the closure
            let k = r.below(n) as usize;
            streams[k]["backlog"] = json!(r.range(100, 272));
            streams[k]["post"] = json!(0);
            streams[k]["hold"] = json!(false);
            streams[k]["proc"] = json!(false);
            streams[k]["big"] = json!(false);
            streams[k]["drop_after"] = Value::Null;
            sim["sndbuf"] = Value::Null;
        }
        json!({"sim": sim, "streams": streams, "threads": nthreads})
    }
    #[cfg(not(feature = "asy"))]
    fn run(&self, _p: &Value) -> Outcome {
        Outcome::default()
    }
    #[cfg(feature = "asy")]
    fn run(&self, p: &Value) -> Outcome {
        imp::run(p)
    }
}

#[cfg(feature = "asy")]
mod imp {
    use super::super::*;
    use crate::hist;
    use futures::task::{waker, ArcWake};
    use futures::{Stream, StreamExt};
    use ipc_channel::ipc::{self, IpcSender};
    use std::pin::Pin;
    use std::sync::atomic::{AtomicBool, AtomicU64, Ordering::SeqCst};
    use std::sync::Arc;
    use std::task::{Context, Poll};

    fn send_some(tx: &IpcSender<Vec<u8>>, route: u32, from: u32, n: u64, len: usize, gap_us: u64) {
        for k in 0..n {
            if gap_us > 0 {
                sim::sleep_ns(gap_us * 1000);
            }
            let q = from + k as u32;
            let p = make_payload(route, 0, q, len);
            hist::log("send.inv", route as i64, q as i64, 0, "");
            let r = tx.send(p);
            hist::log(if r.is_ok() { "send.ok" } else { "send.err" }, route as i64, q as i64, 0, "");
        }
    }
    struct ParkWaker {
        thread: std::thread::Thread,
        woken: AtomicBool,
        count: AtomicU64,
    }
    impl ArcWake for ParkWaker {
        fn wake_by_ref(a: &Arc<Self>) {
            a.count.fetch_add(1, SeqCst);
            a.woken.store(true, SeqCst);
            a.thread.unpark();
        }
    }
    fn note(route: u32, item: Option<Result<Vec<u8>, bincode::Error>>) -> bool {
        match item {
            Some(Ok(v)) => {
                match check_payload(&v) {
                    Ok((c, _s, q)) => hist::log("yield", route as i64, c as i64, q as i64, ""),
                    Err(e) => hist::log("yield.bad", route as i64, 0, 0, &e),
                };
                true
            },
            Some(Err(e)) => {
                hist::log("yield.bad", route as i64, 0, 0, &format!("decode: {}", e));
                true
            },
            None => {
                hist::log("end", route as i64, 0, 0, "");
                false
            },
        }
    }

    pub fn run(p: &Value) -> Outcome {
        let mut out = Outcome::default();
        start_sim(p);
        let specs: Vec<Value> = p["streams"].as_array().cloned().unwrap_or_default().into_iter().take(32).collect();
        let nthreads = p["threads"].as_u64().unwrap_or(1).clamp(1, 8) as usize;
        let prepared = p["prepared"].as_bool().unwrap_or(false);
        let mut plans: Vec<Vec<(u32, Value, Option<(IpcSender<Vec<u8>>, ipc::IpcReceiver<Vec<u8>>)>)>> = (0..nthreads).map(|_| vec![]).collect();
        for (i, s) in specs.iter().enumerate() {
            let route = i as u32 + 1;
            // "prepared": the channel exists and its early messages are queued before any thread
            // starts converting, so the converting threads do nothing but call to_stream
            let ready = if prepared {
                let (tx, rx) = ipc::channel::<Vec<u8>>().unwrap();
                send_some(&tx, route, 0, s["pre"].as_u64().unwrap_or(0).min(4), 40, 0);
                hist::log("drop.inv", route as i64, 0, 0, "");
                hist::log("drop.ret", route as i64, 0, 0, "");
                Some((tx, rx))
            } else {
                None
            };
            plans[s["thread"].as_u64().unwrap_or(0) as usize % nthreads].push((route, s.clone(), ready));
        }
        let any_pre = specs.iter().any(|s| s["pre"].as_u64().unwrap_or(0) > 0);
        for (t, plan) in plans.into_iter().enumerate() {
            sim::spawn(&format!("converter{}", t), None, move || {
                for (route, s, ready) in plan {
                    let was_ready = ready.is_some();
                    let (tx, rx) = ready.unwrap_or_else(|| ipc::channel::<Vec<u8>>().unwrap());
                    let backlog = if was_ready { 0 } else { s["backlog"].as_u64().unwrap_or(0).min(300) };
                    let pre = if was_ready { 0 } else if backlog > 0 { backlog } else { s["pre"].as_u64().unwrap_or(0).min(60) };
                    let mut tx = Some(tx);
                    let post = s["post"].as_u64().unwrap_or(0).min(20);
                    let len = if s["big"].as_bool().unwrap_or(false) { 9000 } else { 40 };
                    let gap = s["gap_us"].as_u64().unwrap_or(0).min(100_000);
                    let hold = s["hold"].as_bool().unwrap_or(false);
                    // messages queued before the conversion (a helper thread: a large backlog may block)
                    if !was_ready {
                        let tx2 = tx.as_ref().unwrap().clone();
                        let h = sim::spawn(&format!("presender{}", route), None, move || {
                            send_some(&tx2, route, 0, pre, len, 0);
                            hist::log("drop.inv", route as i64, 0, 0, "");
                            drop(tx2);
                            hist::log("drop.ret", route as i64, 0, 0, "");
                        });
                        if pre <= 4 && len < 1000 {
                            let _ = h.join();
                        }
                        if backlog > 0 {
                            // every sender is gone and the helper done (or stuck) before the conversion
                            hist::log("drop.inv", route as i64, 0, 0, "");
                            drop(tx.take());
                            hist::log("drop.ret", route as i64, 0, 0, "");
                            sim::sleep_ns(50_000_000);
                        }
                    }
                    hist::log("to_stream.inv", route as i64, 0, 0, "");
                    let mut st = rx.to_stream();
                    hist::log("to_stream.ret", route as i64, 0, 0, "");
                    let as_proc = s["proc"].as_bool().unwrap_or(false) && route <= 12;
                    let crash_at = s["crash_at"].as_u64();
                    let body = move |tx: IpcSender<Vec<u8>>| {
                        if let (true, Some(k)) = (as_proc, crash_at) {
                            // the sending process dies at the k-th system call of its last send (or right after)
                            if post > 0 {
                                send_some(&tx, route, 1000, post - 1, len, gap);
                                sim::arm_crash(8 + route, k);
                                send_some(&tx, route, 1000 + post as u32 - 1, 1, len, 0);
                                sim::disarm_crash(8 + route);
                            }
                            sim::crash_now();
                        }
                        send_some(&tx, route, 1000, post, len, gap);
                        if hold {
                            hist::log("hold", route as i64, 0, 0, "");
                            std::mem::forget(tx);
                        } else {
                            hist::log("drop.inv", route as i64, 0, 0, "");
                            drop(tx);
                            hist::log("drop.ret", route as i64, 0, 0, "");
                        }
                    };
                    if let Some(tx) = tx.take() {
                        if as_proc {
                            super::super::util::spawn_process(&format!("sender{}", route), 8 + route, tx, body);
                        } else {
                            sim::spawn(&format!("sender{}", route), None, move || body(tx));
                        }
                    }
                    let manual = s["consumer"].as_str() == Some("manual");
                    let drop_after = s["drop_after"].as_u64();
                    sim::spawn(&format!("consumer{}", route), None, move || {
                        let mut taken = 0u64;
                        if manual {
                            let w = Arc::new(ParkWaker { thread: std::thread::current(), woken: AtomicBool::new(false), count: AtomicU64::new(0) });
                            let wk = waker(w.clone());
                            let mut cx = Context::from_waker(&wk);
                            loop {
                                if drop_after == Some(taken) {
                                    hist::log("stream.dropped", route as i64, taken as i64, 0, "");
                                    break;
                                }
                                match Pin::new(&mut st).poll_next(&mut cx) {
                                    Poll::Ready(item) => {
                                        if !note(route, item) {
                                            break;
                                        }
                                        taken += 1;
                                    },
                                    Poll::Pending => {
                                        hist::log("pending", route as i64, 0, 0, "");
                                        while !w.woken.swap(false, SeqCst) {
                                            std::thread::park();
                                        }
                                        hist::log("woken", route as i64, w.count.load(SeqCst) as i64, 0, "");
                                    },
                                }
                            }
                        } else {
                            futures::executor::block_on(async {
                                loop {
                                    if drop_after == Some(taken) {
                                        hist::log("stream.dropped", route as i64, taken as i64, 0, "");
                                        break;
                                    }
                                    let item = st.next().await;
                                    if !note(route, item) {
                                        break;
                                    }
                                    taken += 1;
                                }
                            });
                        }
                        drop(st);
                        hist::log("consumer.done", route as i64, 0, 0, "");
                    });
                }
            });
        }
        let blocked = sim::settle();

        // ------------------------------------------------------------ oracle
        // a sender whose sim-process died: gone from the crash on, certainly gone once reaped
        let mut merged: Vec<hist::Ev> = hist::events().to_vec();
        for e in hist::events() {
            if e.a >= 8 && (e.op == "crash" || e.op == "crash.reaped") {
                let mut d = e.clone();
                d.op = if e.op == "crash" { "drop.inv" } else { "drop.ret" };
                d.a = e.a - 8;
                merged.push(d);
            }
        }
        merged.sort_by_key(|e| e.seq);
        let evs = &merged[..];
        for route in 1..=specs.len() as i64 {
            let ok: Vec<i64> = evs.iter().filter(|e| e.op == "send.ok" && e.a == route).map(|e| e.b).collect();
            let yielded: Vec<&hist::Ev> = evs.iter().filter(|e| e.op == "yield" && e.a == route).collect();
            let dropped_early = evs.iter().find(|e| e.op == "stream.dropped" && e.a == route);
            let mut seen: Vec<i64> = vec![];
            for y in &yielded {
                if y.b != route {
                    out.viol("foreign-message:stream", format!("stream {} yielded a message of channel {}", route, y.b));
                    continue;
                }
                if seen.contains(&y.c) {
                    out.viol("duplicate:stream", format!("stream {} yielded message {} twice", route, y.c));
                }
                if let Some(l) = seen.iter().rev().find(|s| (**s < 1000) == (y.c < 1000)) {
                    if y.c < *l {
                        out.viol("order:stream", format!("stream {} yielded message {} after message {}", route, y.c, l));
                    }
                }
                seen.push(y.c);
            }
            // real-time order across the two sender phases (see C07)
            {
                let span = |q: i64| -> (u64, u64) {
                    let inv = evs.iter().find(|e| e.op == "send.inv" && e.a == route && e.b == q).map(|e| e.seq).unwrap_or(0);
                    let ret = evs.iter().find(|e| e.op == "send.ok" && e.a == route && e.b == q).map(|e| e.seq).unwrap_or(u64::MAX);
                    (inv, ret)
                };
                let mut latest_inv: Option<(u64, i64)> = None;
                for y in yielded.iter().filter(|y| y.b == route) {
                    let (inv, ret) = span(y.c);
                    if let Some((li, lq)) = latest_inv {
                        if ret < li {
                            out.viol("order:stream", format!("stream {}: message {} (send returned at #{}) was yielded after message {} whose send began only at #{}", route, y.c, ret, lq, li));
                            break;
                        }
                    }
                    if latest_inv.map(|(li, _)| inv > li).unwrap_or(true) {
                        latest_inv = Some((inv, y.c));
                    }
                }
            }
            for e in evs.iter().filter(|e| e.op == "yield.bad" && e.a == route) {
                out.viol("torn:stream", format!("stream {}: {}", route, e.s));
            }
            let ended = evs.iter().find(|e| e.op == "end" && e.a == route);
            let senders_gone = !evs.iter().any(|e| e.op == "hold" && e.a == route) && evs.iter().filter(|e| e.op == "drop.ret" && e.a == route).count() >= 2;
            if let Some(e) = ended {
                let all_invoked = evs.iter().filter(|x| x.op == "drop.inv" && x.a == route && x.seq < e.seq).count() >= 2 && !evs.iter().any(|x| x.op == "hold" && x.a == route);
                if !all_invoked {
                    out.viol("premature-end:stream", format!("stream {} ended while a sender of its channel certainly still existed", route));
                }
                let missing: Vec<&i64> = ok.iter().filter(|q| !seen.contains(q)).collect();
                if !missing.is_empty() {
                    out.viol("end-before-messages:stream", format!("stream {} ended although {} successfully sent messages were never yielded (first {})", route, missing.len(), missing[0]));
                }
            } else if dropped_early.is_none() {
                let consumer_blocked = blocked.iter().find(|b| b.label == format!("consumer{}", route));
                let converted = evs.iter().any(|e| e.op == "to_stream.ret" && e.a == route);
                if converted {
                    let missing: Vec<&i64> = ok.iter().filter(|q| !seen.contains(q)).collect();
                    if !missing.is_empty() {
                        out.viol("lost-or-lost-wakeup:stream", format!("stream {}: {} successfully sent messages were never yielded (first {}); consumer {}", route, missing.len(), missing[0], consumer_blocked.map(|b| format!("parked in {}", b.in_call)).unwrap_or("gone".into())));
                    } else if senders_gone {
                        out.viol("never-ends:stream", format!("stream {}: every sender is gone and every message was yielded but the stream never ended; consumer {}", route, consumer_blocked.map(|b| format!("parked in {}", b.in_call)).unwrap_or("gone".into())));
                    }
                }
            }
        }
        for b in &blocked {
            if b.label.starts_with("converter") {
                out.viol("hang:to_stream", format!("{} blocked forever in {}", b.label, b.in_call));
            }
            if b.label.starts_with("sender") || b.label.starts_with("presender") {
                let r: i64 = b.label.trim_start_matches("presender").trim_start_matches("sender").parse().unwrap_or(0);
                if evs.iter().any(|e| e.op == "to_stream.ret" && e.a == r) && !evs.iter().any(|e| e.op == "stream.dropped" && e.a == r) {
                    out.viol("hang:send", format!("{} blocked forever in {} although its channel is a live stream", b.label, b.in_call));
                }
            }
        }
        for pn in hist::panics() {
            out.viol(&hist::panic_sig(pn), format!("panic in [{}]: {} at {}", pn.label, pn.msg, pn.loc));
        }
        out.nontrivial = specs.len() >= 2 && (any_pre || nthreads >= 2);
        for (i, sp) in specs.iter().enumerate() {
            if sp["backlog"].as_u64().unwrap_or(0) > 0 && !prepared {
                let route = i as i64 + 1;
                let at = evs.iter().find(|e| e.op == "to_stream.inv" && e.a == route).map(|e| e.seq).unwrap_or(u64::MAX);
                let q = evs.iter().filter(|e| e.op == "send.ok" && e.a == route && e.seq < at).count() as u64;
                let gone = evs.iter().filter(|e| e.op == "drop.ret" && e.a == route && e.seq < at).count() >= 2;
                out.probe("backlog_over_128_all_senders_gone_before_conversion", (q > 128 && gone) as u64);
                out.probe("backlog_over_256_all_senders_gone_before_conversion", (q > 256 && gone) as u64);
            }
        }
        out.probe("streams", specs.len() as u64);
        out.probe("yielded", evs.iter().filter(|e| e.op == "yield").count() as u64);
        out.probe("ended", evs.iter().filter(|e| e.op == "end").count() as u64);
        out.probe("pending_polls", evs.iter().filter(|e| e.op == "pending").count() as u64);
        out.probe("streams_dropped_early", evs.iter().filter(|e| e.op == "stream.dropped").count() as u64);
        out.sample = json!({"streams": specs.len(), "threads": nthreads, "yielded": evs.iter().filter(|e| e.op == "yield").count(), "ended": evs.iter().filter(|e| e.op == "end").count()});
        out
    }
}
