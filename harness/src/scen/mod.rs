//! Scenario trait, registry and helpers shared by the per-property scenarios.
use crate::rng::Rng;
use crate::sim::{self, Config, Fault, Policy};
use serde_json::{json, Value};
use std::collections::BTreeMap;

pub mod c01;
pub mod c02;
pub mod c03;
pub mod c04;
pub mod c05;
pub mod c06;
pub mod c07;
pub mod c08;
pub mod c09;
pub mod c10;
pub mod c11;
pub mod c12;
pub mod c13;
pub mod c14;
pub mod c15;
pub mod c16;
pub mod c17;
pub mod c18;
pub mod c19;
pub mod c20;
pub mod util;

#[derive(Clone, Copy, PartialEq, Debug)]
pub enum Tier {
    Quick,
    Thorough,
}

#[derive(Clone, Debug)]
pub struct Violation {
    /// stable signature: "<rule>:<call>[:detail]"
    pub sig: String,
    pub detail: String,
}

#[derive(Default)]
pub struct Outcome {
    pub violations: Vec<Violation>,
    /// scenario-specific probes ("this rare condition was hit")
    pub probes: BTreeMap<String, u64>,
    /// non-trivial by the scenario's stated rule
    pub nontrivial: bool,
    /// a short human-readable rendering of the case (for evidence samples)
    pub sample: Value,
}
impl Outcome {
    pub fn viol(&mut self, sig: &str, detail: String) {
        if !self.violations.iter().any(|v| v.sig == sig) {
            self.violations.push(Violation { sig: sig.to_string(), detail });
        }
    }
    pub fn probe(&mut self, k: &str, n: u64) {
        *self.probes.entry(k.to_string()).or_insert(0) += n;
    }
}

pub trait Scenario: Sync {
    fn id(&self) -> &'static str;
    /// which harness builds this scenario runs on ("os", "memfd", "inproc", "asy")
    fn variants(&self) -> &'static [&'static str];
    /// number of cases for (tier, variant)
    fn count(&self, tier: Tier, variant: &str) -> u64;
    /// the idx-th case: explicit parameters (workload + sim config + faults), JSON
    fn gen(&self, seed: u64, idx: u64, tier: Tier, variant: &str) -> Value;
    /// run one case inside a sacrificial child; must call `start_sim`
    fn run(&self, params: &Value) -> Outcome;
    /// rule text for the evidence file
    fn rule(&self) -> &'static str;
    /// true when `gen` enumerates a finite space completely (fault_enumeration checks)
    fn exhaustive(&self) -> bool {
        false
    }
    /// the child died without a result (`how` = "signal N" / "exit N" / "step-budget" / "sim-abort");
    /// return a violation if that is one for this property, None = harness error
    fn died(&self, _how: &str, _panics: &str) -> Option<Violation> {
        None
    }
    /// parent-side check on the child's result (e.g. leftovers in the run's temp directory)
    fn post(&self, _body: &Value) -> Option<Violation> {
        None
    }
}

pub fn registry() -> Vec<&'static dyn Scenario> {
    vec![&c01::C01, &c02::C02, &c03::C03, &c04::C04, &c05::C05, &c06::C06, &c07::C07, &c08::C08, &c09::C09, &c10::C10, &c11::C11, &c12::C12, &c13::C13, &c14::C14, &c15::C15, &c16::C16, &c17::C17, &c18::C18, &c19::C19, &c20::C20]
}
pub fn lookup(id: &str) -> Option<&'static dyn Scenario> {
    registry().into_iter().find(|s| s.id().eq_ignore_ascii_case(id))
}

pub const VARIANT: &str = if cfg!(feature = "inproc") {
    "inproc"
} else if cfg!(feature = "memfd") {
    "memfd"
} else if cfg!(all(feature = "asy", feature = "hook")) {
    "asyhook"
} else if cfg!(feature = "asy") {
    "asy"
} else if cfg!(feature = "asan") {
    "asan"
} else if cfg!(feature = "hook") {
    "hook"
} else {
    "os"
};

// ------------------------------------------------------------------ sim config <-> JSON
pub fn gen_policy(r: &mut Rng) -> Value {
    match r.below(10) {
        0..=3 => json!({"kind": "random"}),
        4..=6 => json!({"kind": "sticky", "pct": *r.pick(&[50u32, 75, 90, 97])}),
        _ => json!({"kind": "pct", "d": r.range(1, 6), "horizon": *r.pick(&[100u32, 400, 1500, 6000])}),
    }
}
pub fn gen_sndbuf(r: &mut Rng) -> Value {
    // requested value; the kernel doubles it, minimum effective 4608
    match r.below(10) {
        0..=3 => json!(2304),
        4..=5 => json!(4096),
        6 => json!(8192),
        7 => json!(r.range(2304, 20000)),
        8 => json!(32768),
        _ => Value::Null,
    }
}
pub fn sim_json(r: &mut Rng, seed: u64) -> Value {
    json!({"seed": seed, "policy": gen_policy(r), "sndbuf": gen_sndbuf(r), "faults": [], "schedule": null})
}
fn fault_from(v: &Value) -> Option<Fault> {
    let k = v["k"].as_str()?;
    let pid = v["pid"].as_u64().unwrap_or(0) as u32;
    let nth = v["nth"].as_u64().unwrap_or(0);
    Some(match k {
        "txerr" => Fault::TxErr { pid, nth, errno: v["errno"].as_i64().unwrap_or(libc::ENOBUFS as i64) as i32 },
        "eintr" => Fault::Eintr { pid, nth },
        "short" => Fault::ShortBatch { pid, nth, max: v["max"].as_i64().unwrap_or(1) as i32 },
        "fderr" => Fault::FdErr {
            pid,
            nth,
            errno: v["errno"].as_i64().unwrap_or(libc::EMFILE as i64) as i32,
            call: match v["call"].as_str().unwrap_or("") {
                "socketpair" => sim::S_SOCKETPAIR,
                "socket" => sim::S_SOCKET,
                "accept" => sim::S_ACCEPT,
                "epoll_create1" => sim::S_EPOLL_CREATE,
                "dup" => sim::S_DUP,
                "shm_open" => sim::S_SHM_OPEN,
                _ => 0,
            },
        },
        "polleintr" => Fault::PollEintr { pid, nth },
        "timejump" => Fault::TimeJump { step: v["step"].as_u64().unwrap_or(1), ns: v["ns"].as_u64().unwrap_or(0) },
        "closestdin" => Fault::CloseStdin { step: v["step"].as_u64().unwrap_or(1) },
        "execchild" => Fault::ExecChild { step: v["step"].as_u64().unwrap_or(1) },
        "corrupt" => Fault::Corrupt {
            pid,
            nth,
            iov: v["iov"].as_u64().unwrap_or(1) as u32,
            off: v["off"].as_u64().unwrap_or(0),
            xor: (v["xor"].as_u64().unwrap_or(1) as u8).max(1),
        },
        _ => return None,
    })
}
pub fn config_from(v: &Value) -> Config {
    let seed = v["seed"].as_u64().unwrap_or(1);
    let mut c = Config::new(seed);
    c.policy = match v["policy"]["kind"].as_str().unwrap_or("random") {
        "sticky" => Policy::Sticky(v["policy"]["pct"].as_u64().unwrap_or(80).min(100) as u32),
        "pct" => Policy::Pct {
            d: v["policy"]["d"].as_u64().unwrap_or(3).min(64) as u32,
            horizon: v["policy"]["horizon"].as_u64().unwrap_or(1000).clamp(1, 1_000_000) as u32,
        },
        "baseline" => Policy::Baseline,
        _ => Policy::Random,
    };
    c.sndbuf = v["sndbuf"].as_u64().map(|x| x.clamp(1, 1 << 22) as u32);
    if let Some(fs) = v["faults"].as_array() {
        c.faults = fs.iter().filter_map(fault_from).collect();
    }
    if let Some(s) = v["schedule"].as_array() {
        let mut sch: Vec<(u64, u16)> =
            s.iter().filter_map(|e| Some((e.get(0)?.as_u64()?, e.get(1)?.as_u64()? as u16))).collect();
        sch.sort();
        c.schedule = Some(sch);
    }
    if let Some(m) = v["max_steps"].as_u64() {
        c.max_steps = m;
    }
    c.canary = v["canary"].as_bool().unwrap_or(false);
    c
}
/// Environment faults that are legal for any program: it closes its stdin at some point, and it
/// spawns an unrelated long-lived child (fork+exec) at some point.
pub fn gen_env_faults(r: &mut Rng, horizon: u64) -> Vec<Value> {
    let mut v = vec![];
    if r.chance(1, 4) {
        v.push(json!({"k": "closestdin", "step": r.range(1, horizon)}));
    }
    if r.chance(1, 4) {
        v.push(json!({"k": "execchild", "step": r.range(1, horizon)}));
    }
    v
}
/// Start the simulator from the "sim" object of a case.
pub fn start_sim(params: &Value) {
    let cfg = config_from(&params["sim"]);
    sim::start(cfg);
    if params["sim"]["log_seam"].as_bool().unwrap_or(false) {
        sim::set_log_seam(true);
    }
}

// ------------------------------------------------------------------ tagged payloads
/// A payload that identifies itself: header (chan, sender, seq, len) then a fill pattern keyed
/// by the header, so bytes of different messages can never pass for one another.
pub fn make_payload(chan: u32, sender: u32, seq: u32, len: usize) -> Vec<u8> {
    let len = len.max(16);
    let mut v = vec![0u8; len];
    v[0..4].copy_from_slice(&chan.to_le_bytes());
    v[4..8].copy_from_slice(&sender.to_le_bytes());
    v[8..12].copy_from_slice(&seq.to_le_bytes());
    v[12..16].copy_from_slice(&(len as u32).to_le_bytes());
    let key = (chan as u64) << 40 ^ (sender as u64) << 20 ^ seq as u64;
    let mut x = key.wrapping_mul(0x9E3779B97F4A7C15) | 1;
    let mut i = 16;
    while i < len {
        x ^= x << 13;
        x ^= x >> 7;
        x ^= x << 17;
        let b = x.to_le_bytes();
        let n = (len - i).min(8);
        v[i..i + n].copy_from_slice(&b[..n]);
        i += n;
    }
    v
}
/// Returns (chan, sender, seq) if `v` is exactly the payload make_payload would build.
pub fn check_payload(v: &[u8]) -> Result<(u32, u32, u32), String> {
    if v.len() < 16 {
        return Err(format!("short payload len={}", v.len()));
    }
    let chan = u32::from_le_bytes(v[0..4].try_into().unwrap());
    let sender = u32::from_le_bytes(v[4..8].try_into().unwrap());
    let seq = u32::from_le_bytes(v[8..12].try_into().unwrap());
    let len = u32::from_le_bytes(v[12..16].try_into().unwrap()) as usize;
    if len != v.len() {
        return Err(format!("length mismatch: header says {} got {} (chan {} sender {} seq {})", len, v.len(), chan, sender, seq));
    }
    if len > (256 << 20) {
        return Err("absurd length".into());
    }
    let want = make_payload(chan, sender, seq, len);
    if want != v {
        let at = want.iter().zip(v.iter()).position(|(a, b)| a != b).unwrap_or(0);
        return Err(format!("content mismatch at byte {} of {} (chan {} sender {} seq {})", at, len, chan, sender, seq));
    }
    Ok((chan, sender, seq))
}

/// Effective fragment sizes for the simulated buffer size (what the library will compute).
pub fn frag_sizes() -> (usize, usize) {
    #[cfg(not(feature = "inproc"))]
    {
        let first = ipc_channel::platform::OsIpcSender::get_max_fragment_size();
        // first = (sndbuf - 32 - 8) & !7 ; follow-up = sndbuf - 32
        (first, first + 8 + 7)
    }
    #[cfg(feature = "inproc")]
    {
        (usize::MAX, usize::MAX)
    }
}

/// Message sizes interesting for the current transport: around packet boundaries.
pub fn size_classes(r: &mut Rng, first: usize) -> usize {
    if first == usize::MAX {
        return *r.pick(&[16usize, 64, 1000, 5000, 70000]);
    }
    match r.below(10) {
        0..=2 => r.range(16, 200) as usize,
        3 => first.saturating_sub(r.below(17) as usize).max(16),
        4 => first + r.below(17) as usize,
        5 => first + 1,
        6 => (2 * first + r.below(64) as usize).max(16),
        7 => (first * r.range(2, 5) as usize + r.below(first as u64) as usize).max(16),
        8 => r.range(16, first as u64) as usize,
        _ => first,
    }
}
