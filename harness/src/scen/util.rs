//! Helpers shared by scenarios: sim-process bootstrap, size prediction, receive loops.
use crate::hist;
use crate::sim;
use ipc_channel::ipc::{self, IpcOneShotServer, IpcReceiver, IpcSender};
use serde::{Deserialize, Serialize};

/// Effective SO_SNDBUF the kernel will report for a requested value (x86-64 Linux).
pub fn effective_sndbuf(req: Option<u64>) -> usize {
    match req {
        None => std::fs::read_to_string("/proc/sys/net/core/wmem_default").ok().and_then(|s| s.trim().parse().ok()).unwrap_or(212992),
        Some(r) => {
            let max: u64 = std::fs::read_to_string("/proc/sys/net/core/wmem_max").ok().and_then(|s| s.trim().parse().ok()).unwrap_or(212992);
            (r.min(max) * 2).max(4608) as usize
        },
    }
}
/// Predicted (first fragment payload, follow-up fragment payload) for a requested SO_SNDBUF.
pub fn predict_frag(req: Option<u64>, inproc: bool) -> (usize, usize) {
    if inproc {
        return (usize::MAX, usize::MAX);
    }
    let eff = effective_sndbuf(req);
    ((eff - 32 - 8) & !7usize, eff - 32)
}

/// Start a simulated process: a thread group with its own descriptor ledger that obtains its
/// endpoints only the way a real process would — by connecting to a one-shot server and
/// receiving them in a message. `give` is sent to it; `body` runs inside it.
pub fn spawn_process<T, F>(label: &str, pid: u32, give: T, body: F) -> std::thread::JoinHandle<()>
where
    T: Serialize + for<'de> Deserialize<'de> + Send + 'static,
    F: FnOnce(T) + Send + 'static,
{
    let (server, name) = IpcOneShotServer::<IpcSender<T>>::new().expect("one-shot server");
    let h = sim::spawn(label, Some(pid), move || {
        let (ptx, prx): (IpcSender<T>, IpcReceiver<T>) = ipc::channel().expect("channel");
        let boot: IpcSender<IpcSender<T>> = IpcSender::connect(name).expect("connect");
        boot.send(ptx).expect("boot send");
        drop(boot);
        let got = prx.recv().expect("boot recv");
        drop(prx);
        body(got);
    });
    let (brx, ptx) = server.accept().expect("accept");
    drop(brx);
    ptx.send(give).expect("give");
    drop(ptx);
    h
}

pub fn log_inv(op: &'static str, a: i64, b: i64, c: i64) -> u64 {
    hist::log(op, a, b, c, "")
}
