//! Helpers shared by scenarios: sim-process bootstrap, size prediction, receive loops.
use crate::hist;
use crate::sim;
use ipc_channel::ipc::{self, IpcOneShotServer, IpcReceiver, IpcSender};
use serde::{Deserialize, Serialize};

/// Effective SO_SNDBUF the kernel will report for a requested value (x86-64 Linux).
pub fn effective_sndbuf(req: Option<u64>) -> usize {
    match req {
        None => std::fs::read_to_string("/proc/sys/net/core/wmem_default").ok().and_then(|s| s.trim().parse().ok()).unwrap_or(212992),
        Some(r) => {
            let max: u64 = std::fs::read_to_string("/proc/sys/net/core/wmem_max").ok().and_then(|s| s.trim().parse().ok()).unwrap_or(212992);
            (r.min(max) * 2).max(4608) as usize
        },
    }
}
/// Predicted (first fragment payload, follow-up fragment payload) for a requested SO_SNDBUF.
pub fn predict_frag(req: Option<u64>, inproc: bool) -> (usize, usize) {
    if inproc {
        return (usize::MAX, usize::MAX);
    }
    let eff = effective_sndbuf(req);
    ((eff - 32 - 8) & !7usize, eff - 32)
}

/// Start a simulated process: a thread group with its own descriptor ledger that obtains its
/// endpoints only the way a real process would — by connecting to a one-shot server and
/// receiving them in a message. `give` is sent to it; `body` runs inside it.
pub fn spawn_process<T, F>(label: &str, pid: u32, give: T, body: F) -> std::thread::JoinHandle<()>
where
    T: Serialize + for<'de> Deserialize<'de> + Send + 'static,
    F: FnOnce(T) + Send + 'static,
{
    let (server, name) = IpcOneShotServer::<IpcSender<T>>::new().expect("one-shot server");
    let h = sim::spawn(label, Some(pid), move || {
        let (ptx, prx): (IpcSender<T>, IpcReceiver<T>) = ipc::channel().expect("channel");
        let boot: IpcSender<IpcSender<T>> = IpcSender::connect(name).expect("connect");
        boot.send(ptx).expect("boot send");
        drop(boot);
        let got = prx.recv().expect("boot recv");
        drop(prx);
        body(got);
    });
    let (brx, ptx) = server.accept().expect("accept");
    drop(brx);
    ptx.send(give).expect("give");
    drop(ptx);
    h
}

pub fn log_inv(op: &'static str, a: i64, b: i64, c: i64) -> u64 {
    hist::log(op, a, b, c, "")
}

/// Ground truth about our descriptor table: what /proc/self/fd lists (inherited copies made by the
/// exec-child fault live at >= 9000 and belong to "another process").
pub fn list_fds() -> Vec<i32> {
    let mut v: Vec<i32> = std::fs::read_dir("/proc/self/fd").map(|d| d.filter_map(|e| e.ok()).filter_map(|e| e.file_name().to_string_lossy().parse().ok()).collect()).unwrap_or_default();
    // (the directory stream's own descriptor is gone again by now)
    v.retain(|f| *f < 9000 && unsafe { sim::raw6(libc::SYS_fcntl, *f as i64, libc::F_GETFD as i64, 0, 0, 0, 0) } >= 0);
    v.sort();
    v
}
/// Initialise the library's lazily created statics, then report the descriptor table: the
/// baseline for "everything the operation under test opened has been closed again".
pub fn fd_baseline() -> Vec<i32> {
    sim::suspend_fd_faults(true);
    drop(ipc::channel::<u32>());
    #[cfg(not(feature = "inproc"))]
    {
        let _ = ipc_channel::platform::OsIpcSender::get_max_fragment_size();
    }
    drop(ipc_channel::ipc::IpcSharedMemory::from_bytes(&[1, 2, 3]));
    sim::suspend_fd_faults(false);
    list_fds()
}
/// Descriptors open now that were not open at the baseline, with what the ledger knows about them.
pub fn fds_beyond(base: &[i32]) -> Vec<String> {
    let gl = sim::g();
    list_fds()
        .iter()
        .filter(|f| !base.contains(f))
        .map(|f| {
            let i = &gl.fds[*f as usize];
            if i.open {
                format!("{} ({}{})", f, match i.kind { sim::K_SOCK => "socket", sim::K_SHM => "shared memory", sim::K_DUP => "dup", sim::K_EPOLL => "epoll", _ => "other" }, if i.via == 1 { ", received in a message" } else { "" })
            } else {
                format!("{} (unknown to the ledger)", f)
            }
        })
        .collect()
}
