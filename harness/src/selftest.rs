//! Self-tests: kernel premises the oracles rely on (real calls, no simulation).
//! If a premise fails the oracles would be wrong, so the checks must not speak (exit 2).
use crate::sim::raw6;
use std::sync::atomic::Ordering::SeqCst;

unsafe fn pair() -> (i32, i32) {
    let mut sv = [0i32; 2];
    let r = raw6(libc::SYS_socketpair, libc::AF_UNIX as i64, (libc::SOCK_SEQPACKET | libc::SOCK_CLOEXEC) as i64, 0, sv.as_mut_ptr() as i64, 0, 0);
    assert!(r == 0);
    (sv[0], sv[1])
}
unsafe fn send_fd(sock: i32, fd: i32) -> i64 {
    let mut data = [7u8; 8];
    let mut iov = libc::iovec { iov_base: data.as_mut_ptr() as *mut _, iov_len: 8 };
    let mut cbuf = [0u64; 4];
    let mut m: libc::msghdr = std::mem::zeroed();
    m.msg_iov = &mut iov;
    m.msg_iovlen = 1;
    m.msg_control = cbuf.as_mut_ptr() as *mut _;
    m.msg_controllen = 24;
    let c = cbuf.as_mut_ptr() as *mut u8;
    *(c as *mut usize) = 20;
    *(c.add(8) as *mut i32) = libc::SOL_SOCKET;
    *(c.add(12) as *mut i32) = libc::SCM_RIGHTS;
    *(c.add(16) as *mut i32) = fd;
    raw6(libc::SYS_sendmsg, sock as i64, &m as *const _ as i64, 0, 0, 0, 0)
}
extern "C" fn on_sigpipe(_: i32) {
    crate::sim::SIGPIPES.fetch_add(1, SeqCst);
}

pub fn premises() -> Vec<String> {
    let mut bad = vec![];
    unsafe {
        // 1. packet boundaries and FIFO order
        let (a, b) = pair();
        for i in 1..=5u8 {
            let buf = vec![i; i as usize * 10];
            assert!(raw6(libc::SYS_sendto, a as i64, buf.as_ptr() as i64, buf.len() as i64, 0, 0, 0) == buf.len() as i64);
        }
        for i in 1..=5u8 {
            let mut buf = [0u8; 256];
            let n = raw6(libc::SYS_recvfrom, b as i64, buf.as_mut_ptr() as i64, 256, 0, 0, 0);
            if n != i as i64 * 10 || buf[0] != i {
                bad.push(format!("SEQPACKET boundary/order: packet {} came back with len {} first byte {}", i, n, buf[0]));
            }
        }
        // 2. send to a closed peer: EPIPE, no SIGPIPE (handler installed: the default disposition would kill us)
        let mut sa: libc::sigaction = std::mem::zeroed();
        sa.sa_sigaction = on_sigpipe as *const () as usize;
        libc::sigaction(libc::SIGPIPE, &sa, std::ptr::null_mut());
        raw6(libc::SYS_close, b as i64, 0, 0, 0, 0, 0);
        let buf = [1u8; 4];
        let r = raw6(libc::SYS_sendto, a as i64, buf.as_ptr() as i64, 4, 0, 0, 0);
        if r != -(libc::EPIPE as i64) {
            bad.push(format!("send to closed SEQPACKET peer returned {} (expected -EPIPE)", r));
        }
        if crate::sim::SIGPIPES.load(SeqCst) != 0 {
            bad.push("send to closed SEQPACKET peer raised SIGPIPE".into());
        }
        raw6(libc::SYS_close, a as i64, 0, 0, 0, 0, 0);
        // 3. closing a socket releases descriptors queued in it synchronously
        let mut late = 0;
        for _ in 0..500 {
            let (ca, cb) = pair(); // carrier
            let (xa, xb) = pair(); // carried channel: xa = sender end, xb = receiver end
            assert!(send_fd(ca, xa) > 0);
            raw6(libc::SYS_close, xa as i64, 0, 0, 0, 0, 0);
            let mut buf = [0u8; 8];
            let r = raw6(libc::SYS_recvfrom, xb as i64, buf.as_mut_ptr() as i64, 8, libc::MSG_DONTWAIT as i64, 0, 0);
            if r != -(libc::EAGAIN as i64) {
                bad.push(format!("in-transit sender does not keep channel open (recv gave {})", r));
            }
            raw6(libc::SYS_close, cb as i64, 0, 0, 0, 0, 0);
            raw6(libc::SYS_close, ca as i64, 0, 0, 0, 0, 0);
            let r = raw6(libc::SYS_recvfrom, xb as i64, buf.as_mut_ptr() as i64, 8, libc::MSG_DONTWAIT as i64, 0, 0);
            if r != 0 {
                late += 1;
            }
            raw6(libc::SYS_close, xb as i64, 0, 0, 0, 0, 0);
        }
        if late > 0 {
            bad.push(format!("descriptors queued in a closed socket were not released synchronously in {}/500 trials", late));
        }
        // 4. SO_SNDBUF: doubled, minimum 4608; largest packet = SO_SNDBUF - 32
        for req in [1i32, 2304, 4096, 8192, 50000] {
            let (a, b) = pair();
            raw6(libc::SYS_setsockopt, a as i64, libc::SOL_SOCKET as i64, libc::SO_SNDBUF as i64, &req as *const _ as i64, 4, 0);
            let mut got: i32 = 0;
            let mut l: u32 = 4;
            raw6(libc::SYS_getsockopt, a as i64, libc::SOL_SOCKET as i64, libc::SO_SNDBUF as i64, &mut got as *mut _ as i64, &mut l as *mut _ as i64, 0);
            let want = (req as i64 * 2).max(4608);
            if got as i64 != want {
                bad.push(format!("SO_SNDBUF {} -> {} (expected {})", req, got, want));
            }
            let big = vec![3u8; got as usize];
            let ok = raw6(libc::SYS_sendto, a as i64, big.as_ptr() as i64, (got - 32) as i64, libc::MSG_DONTWAIT as i64, 0, 0);
            if ok != (got - 32) as i64 {
                bad.push(format!("packet of SO_SNDBUF-32 = {} bytes refused: {}", got - 32, ok));
            }
            let mut sink = vec![0u8; got as usize];
            raw6(libc::SYS_recvfrom, b as i64, sink.as_mut_ptr() as i64, sink.len() as i64, 0, 0, 0);
            let over = raw6(libc::SYS_sendto, a as i64, big.as_ptr() as i64, (got - 31) as i64, libc::MSG_DONTWAIT as i64, 0, 0);
            if over != -(libc::EMSGSIZE as i64) {
                bad.push(format!("packet of SO_SNDBUF-31 bytes gave {} (expected -EMSGSIZE)", over));
            }
            raw6(libc::SYS_close, a as i64, 0, 0, 0, 0, 0);
            raw6(libc::SYS_close, b as i64, 0, 0, 0, 0, 0);
        }
        // 5. a control buffer that is too small reports MSG_CTRUNC
        let (a, b) = pair();
        let (x, y) = pair();
        assert!(send_fd(a, x) > 0);
        let mut data = [0u8; 8];
        let mut iov = libc::iovec { iov_base: data.as_mut_ptr() as *mut _, iov_len: 8 };
        let mut cbuf = [0u64; 2];
        let mut m: libc::msghdr = std::mem::zeroed();
        m.msg_iov = &mut iov;
        m.msg_iovlen = 1;
        m.msg_control = cbuf.as_mut_ptr() as *mut _;
        m.msg_controllen = 16;
        let r = raw6(libc::SYS_recvmsg, b as i64, &mut m as *mut _ as i64, 0, 0, 0, 0);
        if r != 8 || m.msg_flags & libc::MSG_CTRUNC == 0 {
            bad.push(format!("truncated control message not flagged (r={} flags={:x})", r, m.msg_flags));
        }
        for fd in [a, b, x, y] {
            raw6(libc::SYS_close, fd as i64, 0, 0, 0, 0, 0);
        }
        // 6. edge-triggered epoll reports a socket again after new data arrives
        let ep = raw6(libc::SYS_epoll_create1, libc::EPOLL_CLOEXEC as i64, 0, 0, 0, 0, 0) as i32;
        let (a, b) = pair();
        let mut ev = libc::epoll_event { events: (libc::EPOLLIN | libc::EPOLLET) as u32, u64: 42 };
        raw6(libc::SYS_epoll_ctl, ep as i64, libc::EPOLL_CTL_ADD as i64, b as i64, &mut ev as *mut _ as i64, 0, 0);
        let one = [1u8; 1];
        raw6(libc::SYS_sendto, a as i64, one.as_ptr() as i64, 1, 0, 0, 0);
        let mut evs = [libc::epoll_event { events: 0, u64: 0 }; 4];
        let n1 = raw6(libc::SYS_epoll_wait, ep as i64, evs.as_mut_ptr() as i64, 4, 0, 0, 0);
        let n2 = raw6(libc::SYS_epoll_wait, ep as i64, evs.as_mut_ptr() as i64, 4, 0, 0, 0);
        raw6(libc::SYS_sendto, a as i64, one.as_ptr() as i64, 1, 0, 0, 0);
        let n3 = raw6(libc::SYS_epoll_wait, ep as i64, evs.as_mut_ptr() as i64, 4, 0, 0, 0);
        if !(n1 == 1 && n2 == 0 && n3 == 1) {
            bad.push(format!("edge-triggered epoll premise: got {},{},{} (expected 1,0,1)", n1, n2, n3));
        }
        for fd in [a, b, ep] {
            raw6(libc::SYS_close, fd as i64, 0, 0, 0, 0, 0);
        }
    }
    bad
}

pub fn run(_args: &[String]) -> i32 {
    if cfg!(feature = "inproc") {
        println!("selftest: in-process build has no kernel premises");
        return 0;
    }
    let bad = premises();
    if bad.is_empty() {
        println!("selftest: kernel premises hold (boundaries+FIFO, EPIPE without SIGPIPE, synchronous release of queued descriptors 500/500, SO_SNDBUF arithmetic, MSG_CTRUNC, edge-triggered epoll)");
        0
    } else {
        for b in &bad {
            println!("PREMISE-FAILED: {}", b);
        }
        2
    }
}
