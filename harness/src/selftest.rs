//! Self-tests: kernel premises the oracles rely on (real calls, no simulation).
pub fn run(_args: &[String]) -> i32 {
    0
}
