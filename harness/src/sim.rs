//! ipcsim — deterministic simulator for code that talks to Linux through libc.
//!
//! The harness binary *defines* the libc symbols below, so every reference in the
//! statically linked crates (ipc-channel, mio, std, crossbeam, futures) binds here.
//! All threads are real threads; exactly one holds the *baton* at any time and a seeded
//! PRNG decides who gets it next at every interposed call. Blocking calls are attempted
//! non-blocking and the thread is parked in the simulator until its wait condition may
//! have changed. Time is virtual. Faults are injected at the seam.
//!
//! All mutable simulator state lives in `Global` and is only touched by the baton holder.
#![allow(static_mut_refs, clippy::missing_safety_doc, dead_code, function_casts_as_integer)]
use crate::rng::Rng;
use std::cell::Cell;
use std::sync::atomic::{AtomicBool, AtomicU32, AtomicUsize, Ordering::SeqCst};

// ------------------------------------------------------------------ raw syscalls
pub unsafe fn raw6(n: i64, a: i64, b: i64, c: i64, d: i64, e: i64, f: i64) -> i64 {
    let ret: i64;
    core::arch::asm!("syscall", inlateout("rax") n => ret, in("rdi") a, in("rsi") b, in("rdx") c,
        in("r10") d, in("r8") e, in("r9") f, lateout("rcx") _, lateout("r11") _, options(nostack));
    ret
}
unsafe fn ret(r: i64) -> i64 {
    if r < 0 && r > -4096 {
        *libc::__errno_location() = (-r) as i32;
        -1
    } else {
        r
    }
}
fn errno_ret(e: i32) -> i64 {
    unsafe { *libc::__errno_location() = e };
    -1
}

// ------------------------------------------------------------------ configuration
#[derive(Clone, Debug, PartialEq)]
pub enum Policy {
    /// uniform among enabled threads
    Random,
    /// keep the running thread with probability pct/100, else uniform
    Sticky(u32),
    /// PCT-style: random priorities, `d` priority change points within `horizon` steps
    Pct { d: u32, horizon: u32 },
    /// deterministic baseline: keep running until blocked, then lowest id (+ explicit deviations)
    Baseline,
}

#[derive(Clone, Debug, PartialEq)]
pub enum Fault {
    /// n-th transmission attempt (sendmsg/send, 0-based, counted per sim-process) fails with errno
    TxErr { pid: u32, nth: u64, errno: i32 },
    /// n-th epoll_wait of the process returns EINTR (before looking at events)
    Eintr { pid: u32, nth: u64 },
    /// n-th epoll_wait of the process returns at most `max` events
    ShortBatch { pid: u32, nth: u64, max: i32 },
    /// n-th descriptor-creating call of the process fails with errno (EMFILE/ENFILE)
    FdErr { pid: u32, nth: u64, errno: i32, call: u16 },
    /// n-th poll() of the process returns EINTR
    PollEintr { pid: u32, nth: u64 },
    /// at scheduling step `step` the virtual clock jumps forward by `ns`
    TimeJump { step: u64, ns: u64 },
    /// at scheduling step `step` the program closes its standard input (descriptor 0 becomes free,
    /// so the next descriptor the library creates or receives is number 0)
    CloseStdin { step: u64 },
    /// at scheduling step `step` the program spawns an unrelated, long-lived child process with
    /// fork+exec: it inherits a copy of every descriptor that is not close-on-exec
    ExecChild { step: u64 },
    /// n-th transmission attempt of process: xor byte at `off` (mod len) of the data with `xor`;
    /// iov selects header (0) or body (1)
    Corrupt { pid: u32, nth: u64, iov: u32, off: u64, xor: u8 },
}

#[derive(Clone, Debug)]
pub struct Config {
    pub seed: u64,
    pub policy: Policy,
    /// requested SO_SNDBUF applied to every socket at creation (kernel doubles it); None = default
    pub sndbuf: Option<u32>,
    pub faults: Vec<Fault>,
    /// explicit schedule: (step, thread) deviations from the baseline policy
    pub schedule: Option<Vec<(u64, u16)>>,
    pub max_steps: u64,
    /// fill every receive buffer with a canary byte before the real call
    pub canary: bool,
}
impl Config {
    pub fn new(seed: u64) -> Config {
        Config { seed, policy: Policy::Random, sndbuf: None, faults: vec![], schedule: None, max_steps: 400_000, canary: false }
    }
}

// ------------------------------------------------------------------ state
#[derive(Clone, Copy, PartialEq, Debug)]
pub enum Cond {
    None,
    Fd { fd: i32, events: i16 },
    FdOrDeadline { fd: i32, events: i16, deadline: u64 },
    Futex { addr: usize, deadline: u64 }, // deadline u64::MAX = none
    Deadline(u64),
    Join(usize),
    Progress(u64),
    /// enabled only when nothing else can run and no deadline is pending
    Settle,
}
#[derive(Clone, Copy, PartialEq, Debug)]
pub enum St {
    Free,
    Runnable,
    Blocked,
    Exited,
    Crashed,
}
pub const MAXT: usize = 512;
pub const MAXFD: usize = 16384;
pub const MAXP: usize = 32;

struct Baton(AtomicU32);
static BATONS: [Baton; MAXT] = [const { Baton(AtomicU32::new(0)) }; MAXT];

#[derive(Clone)]
pub struct Slot {
    pub st: St,
    pub cond: Cond,
    pub woken: bool,
    pub pthread: libc::pthread_t,
    pub pid: u32,
    pub label: String,
    pub prio: u64,
    /// what the thread is blocked in (seam kind) — for reports
    pub in_call: u16,
}

#[derive(Clone, Copy, Default, Debug)]
pub struct FdInfo {
    pub open: bool,
    pub owner: u32,
    pub kind: u8,
    pub lid: u32,
    /// 0 = created by a call, 1 = received via SCM_RIGHTS
    pub via: u8,
    pub cloexec_at_birth: bool,
}
pub const K_SOCK: u8 = 1;
pub const K_LISTEN: u8 = 2;
pub const K_SHM: u8 = 3;
pub const K_EPOLL: u8 = 4;
pub const K_DUP: u8 = 5;
pub const K_RECEIVED: u8 = 6;
pub const K_OTHER: u8 = 7;

#[derive(Clone, Copy, Default, Debug)]
pub struct ProcCounters {
    pub seam_calls: u64,
    pub tx_attempts: u64,
    pub epoll_waits: u64,
    pub polls: u64,
    pub fd_creates: u64,
    pub fd_creates_by_call: [u64; 24],
    pub crashed: bool,
    pub crash_at: u64, // u64::MAX = not armed
    pub crash_base: u64,
}

#[derive(Clone, Copy, Debug)]
pub struct SeamEv {
    pub step: u64,
    pub tid: u16,
    pub kind: u16,
    pub a: i64,
    pub b: i64,
    pub r: i64,
}

#[derive(Clone, Default, Debug)]
pub struct Stats {
    pub f_enobufs: u64,
    pub f_txerr: u64,
    pub f_eintr: u64,
    pub f_short: u64,
    pub f_fderr: u64,
    pub f_poll_eintr: u64,
    pub f_timejump: u64,
    pub f_corrupt: u64,
    pub f_crash: u64,
    pub f_close_stdin: u64,
    pub f_fd_limit: u64,
    pub f_exec_child: u64,
    pub f_fork_real: u64,
    pub inherited_fds: u64,
    pub inherited_by_kind: [u64; 8],
    pub p_send_blocked: u64,
    pub p_recv_blocked: u64,
    pub p_followup_blocked: u64,
    pub p_frag_send: u64,
    pub p_followup_tx: u64,
    pub p_epoll_full: u64,
    pub p_epoll_blocked: u64,
    pub p_poll_timeout: u64,
    pub p_ctrunc: u64,
    pub p_trunc: u64,
    pub p_sigpipe: u64,
    pub p_poisoned: u64,
    pub p_hook_points: u64,
    pub p_clock_jumps: u64,
    pub p_futex_wait: u64,
    pub p_stale: u64,
    pub late_calls: u64,
    pub discipline_breaks: u64,
    pub bad_close: u64,
    pub shared_maps: i64,
    pub shared_maps_total: u64,
    pub max_threads: u64,
    pub tx_ok: u64,
    pub rx_ok: u64,
    pub fds_passed: u64,
}

pub struct Global {
    pub cfg: Config,
    rng_sched: Rng,
    rng_data: Rng,
    rng_wake: Rng,
    pub clock_ns: u64,
    progress: u64,
    pub steps: u64,
    holder: usize,
    pub nslots: usize,
    pub slots: Vec<Slot>,
    pub fds: Vec<FdInfo>,
    next_lid: u32,
    pub procs: [ProcCounters; MAXP],
    pub trace_hash: u64,
    pub sched_hash: u64,
    pub seam_log: Vec<SeamEv>,
    pub deviations: Vec<(u64, u16)>,
    pub stats: Stats,
    next_label: Option<String>,
    next_pid: Option<u32>,
    pct_points: Vec<u64>,
    pct_low: u64,
    dev_cursor: usize,
    /// shared file mappings addr -> len
    pub maps: Vec<(usize, usize, u32)>,
    pub log_seam: bool,
    pub faults_suspended: bool,
    pub pending_exit: i64,
    pub poison_note: String,
    /// (clock before, clock after) of every time-jump fault that fired
    pub timejumps: Vec<(u64, u64)>,
    /// descriptors that were open before the simulation started (not the library's)
    pub baseline_fds: Vec<bool>,
}

static mut GLOBAL: Option<Box<Global>> = None;
pub static ACTIVE: AtomicBool = AtomicBool::new(false);
pub static SIGPIPES: AtomicU32 = AtomicU32::new(0);

#[inline]
pub fn g() -> &'static mut Global {
    unsafe { GLOBAL.as_mut().unwrap() }
}

thread_local! { static ME: Cell<usize> = const { Cell::new(usize::MAX) }; }
pub fn me() -> usize {
    ME.try_with(|m| m.get()).unwrap_or(usize::MAX)
}
#[inline]
fn active() -> bool {
    ACTIVE.load(SeqCst) && me() != usize::MAX
}
pub fn is_active() -> bool {
    active()
}

// seam kinds
pub const S_SENDMSG: u16 = 1;
pub const S_SEND: u16 = 2;
pub const S_RECVMSG: u16 = 3;
pub const S_RECV: u16 = 4;
pub const S_CLOSE: u16 = 5;
pub const S_SOCKETPAIR: u16 = 6;
pub const S_SOCKET: u16 = 7;
pub const S_CONNECT: u16 = 8;
pub const S_ACCEPT: u16 = 9;
pub const S_BIND: u16 = 10;
pub const S_LISTEN: u16 = 11;
pub const S_EPOLL_WAIT: u16 = 12;
pub const S_EPOLL_CTL: u16 = 13;
pub const S_EPOLL_CREATE: u16 = 14;
pub const S_POLL: u16 = 15;
pub const S_FCNTL: u16 = 16;
pub const S_DUP: u16 = 17;
pub const S_SHM_OPEN: u16 = 18;
pub const S_FTRUNCATE: u16 = 19;
pub const S_MMAP: u16 = 20;
pub const S_MUNMAP: u16 = 21;
pub const S_FUTEX_WAIT: u16 = 22;
pub const S_FUTEX_WAKE: u16 = 23;
pub const S_SLEEP: u16 = 24;
pub const S_YIELD: u16 = 25;
pub const S_SPAWN: u16 = 26;
pub const S_EXIT: u16 = 27;
pub const S_JOIN: u16 = 28;
pub const S_CLOCKJUMP: u16 = 29;
pub const S_CRASH: u16 = 30;
pub const S_REAP: u16 = 31;
pub const S_SETTLE: u16 = 32;
pub const S_PICK: u16 = 33;
pub const S_BLOCK: u16 = 34;
pub const S_APP: u16 = 35;
pub const S_FAULT: u16 = 36;
pub const S_SETSOCKOPT: u16 = 37;
pub fn kind_name(k: u16) -> &'static str {
    match k {
        S_SENDMSG => "sendmsg",
        S_SEND => "send",
        S_RECVMSG => "recvmsg",
        S_RECV => "recv",
        S_CLOSE => "close",
        S_SOCKETPAIR => "socketpair",
        S_SOCKET => "socket",
        S_CONNECT => "connect",
        S_ACCEPT => "accept",
        S_BIND => "bind",
        S_LISTEN => "listen",
        S_EPOLL_WAIT => "epoll_wait",
        S_EPOLL_CTL => "epoll_ctl",
        S_EPOLL_CREATE => "epoll_create1",
        S_POLL => "poll",
        S_FCNTL => "fcntl",
        S_DUP => "dup",
        S_SHM_OPEN => "shm_open",
        S_FTRUNCATE => "ftruncate",
        S_MMAP => "mmap",
        S_MUNMAP => "munmap",
        S_FUTEX_WAIT => "futex_wait",
        S_FUTEX_WAKE => "futex_wake",
        S_SLEEP => "sleep",
        S_YIELD => "yield",
        S_SPAWN => "spawn",
        S_EXIT => "thread_exit",
        S_JOIN => "join",
        S_CLOCKJUMP => "clock_jump",
        S_CRASH => "CRASH",
        S_REAP => "reap_close",
        S_SETTLE => "settle",
        S_PICK => "pick",
        S_BLOCK => "block",
        S_APP => "app",
        S_FAULT => "FAULT",
        S_SETSOCKOPT => "setsockopt",
        _ => "?",
    }
}

fn hmix(h: &mut u64, x: u64) {
    *h ^= x;
    *h = h.wrapping_mul(0x100000001b3);
}
/// Record a seam event (never draws from a PRNG, never reads a clock).
pub fn trace(kind: u16, a: i64, b: i64, r: i64) {
    let gl = g();
    let tid = me() as u16;
    hmix(&mut gl.trace_hash, kind as u64);
    hmix(&mut gl.trace_hash, tid as u64);
    hmix(&mut gl.trace_hash, a as u64);
    hmix(&mut gl.trace_hash, b as u64);
    hmix(&mut gl.trace_hash, r as u64);
    if gl.log_seam && gl.seam_log.len() < 200_000 {
        gl.seam_log.push(SeamEv { step: gl.steps, tid, kind, a, b, r });
    }
}
/// Application-level trace entry (mixes into the determinism hash).
pub fn app_trace(a: i64, b: i64) {
    if active() {
        trace(S_APP, a, b, 0);
    }
}

// ------------------------------------------------------------------ baton
fn baton_wait(i: usize) {
    let b = &BATONS[i].0;
    loop {
        if b.swap(0, SeqCst) == 1 {
            return;
        }
        unsafe {
            raw6(libc::SYS_futex, b as *const _ as i64, libc::FUTEX_WAIT as i64, 0, 0, 0, 0);
        }
    }
}
fn baton_give(i: usize) {
    let b = &BATONS[i].0;
    b.store(1, SeqCst);
    unsafe {
        raw6(libc::SYS_futex, b as *const _ as i64, libc::FUTEX_WAKE as i64, 1, 0, 0, 0);
    }
}

fn fd_ready(fd: i32, events: i16) -> bool {
    let mut p = libc::pollfd { fd, events, revents: 0 };
    let r = unsafe { raw6(libc::SYS_poll, &mut p as *mut _ as i64, 1, 0, 0, 0, 0) };
    r > 0
}
fn cond_ready(gl: &Global, i: usize) -> bool {
    let s = &gl.slots[i];
    let now = gl.clock_ns;
    match s.cond {
        Cond::None => true,
        Cond::Fd { fd, events } => fd_ready(fd, events),
        Cond::FdOrDeadline { fd, events, deadline } => now >= deadline || fd_ready(fd, events),
        Cond::Futex { deadline, .. } => s.woken || now >= deadline,
        Cond::Deadline(d) => now >= d,
        Cond::Join(t) => matches!(gl.slots[t].st, St::Exited | St::Crashed),
        Cond::Progress(p) => gl.progress != p,
        Cond::Settle => false,
    }
}
fn cond_deadline(c: Cond) -> Option<u64> {
    match c {
        Cond::FdOrDeadline { deadline, .. } => Some(deadline),
        Cond::Futex { deadline, .. } if deadline != u64::MAX => Some(deadline),
        Cond::Deadline(d) => Some(d),
        _ => None,
    }
}

/// Harness error: not a verdict. Exit status 3.
pub fn die(msg: &str) -> ! {
    let (steps, hash) = unsafe {
        match GLOBAL.as_ref() {
            Some(g) => (g.steps, g.trace_hash),
            None => (0, 0),
        }
    };
    let mut s = format!("SIM-ABORT {} steps={} hash={:x}\n", msg, steps, hash);
    if let Some(gl) = unsafe { GLOBAL.as_ref() } {
        for i in 0..gl.nslots {
            let t = &gl.slots[i];
            s += &format!("  [{} '{}' pid={} {:?} {:?} in={}]\n", i, t.label, t.pid, t.st, t.cond, kind_name(t.in_call));
        }
    }
    crate::report::harness_error(&s);
    unsafe {
        raw6(libc::SYS_write, 2, s.as_ptr() as i64, s.len() as i64, 0, 0, 0);
        raw6(libc::SYS_exit_group, 3, 0, 0, 0, 0, 0);
    }
    unreachable!()
}

fn baseline_pick(gl: &Global, en: &[usize]) -> usize {
    if en.contains(&gl.holder) {
        gl.holder
    } else {
        en[0]
    }
}

/// Hand the baton to a thread chosen by the policy. `exiting`: do not wait for it to come back.
fn reschedule(my: usize, exiting: bool) {
    let gl = g();
    loop {
        gl.steps += 1;
        if gl.steps > gl.cfg.max_steps {
            die("step budget exceeded");
        }
        // time-jump faults
        for i in 0..gl.cfg.faults.len() {
            if let Fault::TimeJump { step, ns } = gl.cfg.faults[i] {
                if step == gl.steps {
                    gl.timejumps.push((gl.clock_ns, gl.clock_ns + ns));
                    gl.clock_ns += ns;
                    gl.stats.f_timejump += 1;
                    trace(S_FAULT, 6, ns as i64, 0);
                }
            }
        }
        for i in 0..gl.cfg.faults.len() {
            match gl.cfg.faults[i] {
                Fault::CloseStdin { step } if step == gl.steps => {
                    if !gl.fds[0].open {
                        unsafe { raw6(libc::SYS_close, 0, 0, 0, 0, 0, 0) };
                        gl.stats.f_close_stdin += 1;
                        trace(S_FAULT, 8, 0, 0);
                    }
                },
                Fault::ExecChild { step } if step == gl.steps => {
                    let mut n = 0;
                    for fd in 0..MAXFD {
                        if gl.fds[fd].open {
                            let fl = unsafe { raw6(libc::SYS_fcntl, fd as i64, libc::F_GETFD as i64, 0, 0, 0, 0) };
                            if fl >= 0 && fl & libc::FD_CLOEXEC as i64 == 0 {
                                // the child's inherited copy: never closed, not in the ledger
                                unsafe { raw6(libc::SYS_fcntl, fd as i64, libc::F_DUPFD_CLOEXEC as i64, 9000, 0, 0, 0) };
                                gl.stats.inherited_by_kind[(gl.fds[fd].kind & 7) as usize] += 1;
                                n += 1;
                            }
                        }
                    }
                    gl.stats.f_exec_child += 1;
                    gl.stats.inherited_fds += n;
                    trace(S_FAULT, 9, n as i64, 0);
                },
                _ => {},
            }
        }
        let n = gl.nslots;
        let mut en: Vec<usize> = Vec::with_capacity(8);
        for i in 0..n {
            let st = gl.slots[i].st;
            if st == St::Runnable || (st == St::Blocked && cond_ready(gl, i)) {
                en.push(i);
            }
        }
        if en.is_empty() {
            let mut dl: Option<u64> = None;
            for i in 0..n {
                if gl.slots[i].st == St::Blocked {
                    if let Some(d) = cond_deadline(gl.slots[i].cond) {
                        dl = Some(dl.map_or(d, |x: u64| x.min(d)));
                    }
                }
            }
            match dl {
                Some(d) => {
                    if d > gl.clock_ns {
                        gl.clock_ns = d;
                    }
                    gl.stats.p_clock_jumps += 1;
                    trace(S_CLOCKJUMP, d as i64, 0, 0);
                    continue;
                },
                None => {
                    // quiescent: wake the settle waiter, if any
                    if let Some(w) = (0..n).find(|&i| gl.slots[i].st == St::Blocked && gl.slots[i].cond == Cond::Settle) {
                        en.push(w);
                    } else if exiting {
                        // nothing left to run at all; the exiting thread just leaves
                        return;
                    } else {
                        die("DEADLOCK (no settle waiter)");
                    }
                },
            }
        }
        // choose
        let base = baseline_pick(gl, &en);
        let pick = if gl.cfg.schedule.is_some() {
            // replay: baseline + explicit deviations
            let sched = gl.cfg.schedule.as_ref().unwrap();
            let mut p = base;
            while gl.dev_cursor < sched.len() && sched[gl.dev_cursor].0 < gl.steps {
                gl.dev_cursor += 1;
            }
            if gl.dev_cursor < sched.len() && sched[gl.dev_cursor].0 == gl.steps {
                let want = sched[gl.dev_cursor].1 as usize;
                if en.contains(&want) {
                    p = want;
                }
                gl.dev_cursor += 1;
            }
            p
        } else {
            match gl.cfg.policy {
                Policy::Baseline => base,
                Policy::Random => en[gl.rng_sched.below(en.len() as u64) as usize],
                Policy::Sticky(pct) => {
                    if en.contains(&gl.holder) && gl.rng_sched.below(100) < pct as u64 {
                        gl.holder
                    } else {
                        en[gl.rng_sched.below(en.len() as u64) as usize]
                    }
                },
                Policy::Pct { .. } => {
                    if gl.pct_points.contains(&gl.steps) && en.contains(&gl.holder) {
                        gl.pct_low = gl.pct_low.saturating_sub(1);
                        gl.slots[gl.holder].prio = gl.pct_low;
                    }
                    let mut best = en[0];
                    for &i in &en {
                        if gl.slots[i].prio > gl.slots[best].prio {
                            best = i;
                        }
                    }
                    best
                },
            }
        };
        if pick != base {
            gl.deviations.push((gl.steps, pick as u16));
        }
        hmix(&mut gl.sched_hash, pick as u64 + 1);
        hmix(&mut gl.trace_hash, 0x5C4E00 + pick as u64);
        if gl.log_seam && gl.seam_log.len() < 200_000 {
            gl.seam_log.push(SeamEv { step: gl.steps, tid: my as u16, kind: S_PICK, a: pick as i64, b: en.len() as i64, r: 0 });
        }
        let s = &mut gl.slots[pick];
        s.st = St::Runnable;
        s.cond = Cond::None;
        s.woken = false;
        gl.holder = pick;
        if pick == my {
            return;
        }
        baton_give(pick);
        if !exiting {
            baton_wait(my);
            wait_pending_exit();
        }
        return;
    }
}

/// A scheduling point for a runnable thread.
fn yield_point() {
    let my = me();
    let gl = g();
    if gl.holder != my {
        gl.stats.discipline_breaks += 1;
    }
    reschedule(my, false);
}
fn block_on(c: Cond, in_call: u16) {
    let my = me();
    let gl = g();
    let s = &mut gl.slots[my];
    s.cond = c;
    s.woken = false;
    s.st = St::Blocked;
    s.in_call = in_call;
    reschedule(my, false);
    g().slots[my].in_call = 0;
}
fn progress() {
    g().progress += 1;
}
/// true if the calling thread may take part (registered, not exited/crashed)
fn enter(crashable: bool) -> bool {
    if !active() {
        return false;
    }
    let my = me();
    let gl = g();
    match gl.slots[my].st {
        St::Exited | St::Crashed => {
            gl.stats.late_calls += 1;
            return false;
        },
        _ => {},
    }
    if crashable {
        maybe_crash();
    }
    true
}

// ------------------------------------------------------------------ public control API
pub fn start(cfg: Config) {
    let seed = cfg.seed;
    let mut slots = Vec::with_capacity(MAXT);
    for _ in 0..MAXT {
        slots.push(Slot { st: St::Free, cond: Cond::None, woken: false, pthread: 0, pid: 0, label: String::new(), prio: 0, in_call: 0 });
    }
    let mut gl = Box::new(Global {
        rng_sched: Rng::stream(seed, 1),
        rng_data: Rng::stream(seed, 2),
        rng_wake: Rng::stream(seed, 3),
        cfg,
        clock_ns: 1_000_000_000_000,
        progress: 0,
        steps: 0,
        holder: 0,
        nslots: 1,
        slots,
        fds: vec![FdInfo::default(); MAXFD],
        next_lid: 1,
        procs: [ProcCounters { crash_at: u64::MAX, ..Default::default() }; MAXP],
        trace_hash: 0xcbf29ce484222325,
        sched_hash: 0xcbf29ce484222325,
        seam_log: Vec::new(),
        deviations: Vec::new(),
        stats: Stats::default(),
        next_label: None,
        next_pid: None,
        pct_points: Vec::new(),
        pct_low: 1 << 20,
        dev_cursor: 0,
        maps: Vec::new(),
        log_seam: false,
        faults_suspended: false,
        pending_exit: 0,
        poison_note: String::new(),
        timejumps: Vec::new(),
        baseline_fds: (0..4096).map(|fd| unsafe { raw6(libc::SYS_fcntl, fd, libc::F_GETFD as i64, 0, 0, 0, 0) } >= 0).collect(),
    });
    for p in gl.procs.iter_mut() {
        p.crash_at = u64::MAX;
    }
    if let Policy::Pct { d, horizon } = gl.cfg.policy {
        let mut r = Rng::stream(seed, 4);
        for _ in 0..d {
            let p = r.below(horizon.max(1) as u64) + 1;
            gl.pct_points.push(p);
        }
    }
    gl.slots[0].st = St::Runnable;
    gl.slots[0].label = "main".into();
    gl.slots[0].prio = 1 << 40;
    unsafe {
        GLOBAL = Some(gl);
        // exit key
        let mut k: libc::pthread_key_t = 0;
        libc::pthread_key_create(&mut k, Some(exit_dtor));
        EXIT_KEY.store(k, SeqCst);
        // SIGPIPE recorder (Rust's runtime ignores it; the property talks about the default disposition)
        let mut sa: libc::sigaction = std::mem::zeroed();
        sa.sa_sigaction = sigpipe_handler as usize;
        libc::sigaction(libc::SIGPIPE, &sa, std::ptr::null_mut());
    }
    ME.with(|m| m.set(0));
    ACTIVE.store(true, SeqCst);
}
extern "C" fn sigpipe_handler(_: i32) {
    SIGPIPES.fetch_add(1, SeqCst);
}
pub fn finish() {
    ACTIVE.store(false, SeqCst);
}
pub fn set_log_seam(on: bool) {
    g().log_seam = on;
}
pub fn now_ns() -> u64 {
    g().clock_ns
}
pub fn steps() -> u64 {
    g().steps
}
pub fn my_pid() -> u32 {
    g().slots[me()].pid
}
pub fn set_my_label(l: &str) {
    g().slots[me()].label = l.to_string();
}
/// Spawn a labelled simulated thread in sim-process `pid` (None = the creator's).
pub fn spawn<F: FnOnce() + Send + 'static>(label: &str, pid: Option<u32>, f: F) -> std::thread::JoinHandle<()> {
    let gl = g();
    gl.next_label = Some(label.to_string());
    gl.next_pid = pid;
    std::thread::Builder::new().stack_size(1 << 20).spawn(f).expect("thread spawn")
}
/// Explicit scheduling point (used between API calls, esp. for the in-process backend).
pub fn yield_now() {
    if enter(false) {
        trace(S_YIELD, 0, 0, 0);
        yield_point();
    }
}
/// Virtual sleep.
pub fn sleep_ns(ns: u64) {
    if enter(false) {
        let d = g().clock_ns + ns;
        block_on(Cond::Deadline(d), S_SLEEP);
    }
}
#[derive(Clone, Debug)]
pub struct BlockedThread {
    pub slot: usize,
    pub label: String,
    pub pid: u32,
    pub cond: String,
    pub in_call: &'static str,
}
/// Block the caller until the rest of the system is quiescent (nothing enabled, no deadline
/// pending). Returns the threads that are still blocked (excluding exited / crashed ones).
pub fn settle() -> Vec<BlockedThread> {
    assert!(active());
    trace(S_SETTLE, 0, 0, 0);
    block_on(Cond::Settle, S_SETTLE);
    let gl = g();
    let mut v = vec![];
    for i in 0..gl.nslots {
        let s = &gl.slots[i];
        if s.st == St::Blocked {
            v.push(BlockedThread { slot: i, label: s.label.clone(), pid: s.pid, cond: format!("{:?}", s.cond), in_call: kind_name(s.in_call) });
        }
    }
    v
}
/// Arm a crash of sim-process `pid` before its `k`-th crashable seam call counted from now.
pub fn arm_crash(pid: u32, k: u64) {
    let p = &mut g().procs[pid as usize];
    p.crash_base = p.seam_calls;
    p.crash_at = k;
}
pub fn disarm_crash(pid: u32) {
    g().procs[pid as usize].crash_at = u64::MAX;
}
/// crashable seam calls made by `pid` since the last arm_crash
pub fn seam_calls_since_arm(pid: u32) -> u64 {
    let p = &g().procs[pid as usize];
    p.seam_calls - p.crash_base
}
/// Remove all pending per-call faults (used once the operation under test has returned).
pub fn clear_faults() {
    g().cfg.faults.clear();
}
/// Flip bits in the data part of the calling sim-process's next packet transmission.
pub fn corrupt_next_tx(off: u64, xor: u8) {
    let gl = g();
    let pid = gl.slots[me()].pid;
    let nth = gl.procs[pid as usize].tx_attempts;
    gl.cfg.faults.push(Fault::Corrupt { pid, nth, iov: 1, off, xor });
}
pub fn tx_attempts_of(pid: u32) -> u64 {
    g().procs[pid as usize].tx_attempts
}
pub fn crashed(pid: u32) -> bool {
    g().procs[pid as usize].crashed
}
/// Crash the calling thread's sim-process right now.
pub fn crash_now() -> ! {
    do_crash();
}
pub fn open_fds_of(pid: u32) -> Vec<i32> {
    let gl = g();
    (0..MAXFD).filter(|&i| gl.fds[i].open && gl.fds[i].owner == pid).map(|i| i as i32).collect()
}
/// descriptors that arrived in messages (SCM_RIGHTS) and are still open
pub fn open_received_fds() -> Vec<i64> {
    let gl = g();
    (0..MAXFD).filter(|&i| gl.fds[i].open && gl.fds[i].via == 1).map(|i| gl.fds[i].lid as i64).collect()
}
/// Put the program exactly at its descriptor limit with `k` free slots: every descriptor number
/// below the limit is in use (holes are plugged with harness-owned fillers, as a program that has
/// reached its limit has no holes), except `k` numbers. Returns what `restore_fd_limit` needs.
pub fn fd_limit_with_free_slots(k: usize) -> (u64, Vec<i32>) {
    unsafe {
        let mut old = libc::rlimit { rlim_cur: 0, rlim_max: 0 };
        libc::getrlimit(libc::RLIMIT_NOFILE, &mut old);
        let open = |fd: i64| raw6(libc::SYS_fcntl, fd, libc::F_GETFD as i64, 0, 0, 0, 0) >= 0;
        let mut max_open = 0i64;
        for fd in 0..8192i64 {
            if open(fd) {
                max_open = fd;
            }
        }
        let holes: Vec<i64> = (0..max_open).filter(|fd| !open(*fd)).collect();
        let mut fillers = vec![];
        let keep_free = k.min(holes.len());
        // plug all holes but the `keep_free` highest ones
        for fd in holes.iter().take(holes.len() - keep_free) {
            let r = raw6(libc::SYS_dup3, 2, *fd, libc::O_CLOEXEC as i64, 0, 0, 0);
            if r >= 0 {
                fillers.push(*fd as i32);
            }
        }
        let limit = (max_open + 1) as u64 + (k - keep_free) as u64;
        let new = libc::rlimit { rlim_cur: limit, rlim_max: old.rlim_max };
        libc::setrlimit(libc::RLIMIT_NOFILE, &new);
        g().stats.f_fd_limit += 1;
        (old.rlim_cur, fillers)
    }
}
pub fn restore_fd_limit(tok: (u64, Vec<i32>)) {
    unsafe {
        let mut cur = libc::rlimit { rlim_cur: 0, rlim_max: 0 };
        libc::getrlimit(libc::RLIMIT_NOFILE, &mut cur);
        let new = libc::rlimit { rlim_cur: tok.0, rlim_max: cur.rlim_max };
        libc::setrlimit(libc::RLIMIT_NOFILE, &new);
        for fd in tok.1 {
            raw6(libc::SYS_close, fd as i64, 0, 0, 0, 0, 0);
        }
    }
}
pub fn data_rng() -> &'static mut Rng {
    &mut g().rng_data
}

fn maybe_crash() {
    let my = me();
    let gl = g();
    let pid = gl.slots[my].pid as usize;
    let p = &mut gl.procs[pid];
    let c = p.seam_calls - p.crash_base;
    p.seam_calls += 1;
    if p.crash_at != u64::MAX && c == p.crash_at {
        do_crash();
    }
}
fn do_crash() -> ! {
    let my = me();
    let gl = g();
    let pid = gl.slots[my].pid;
    trace(S_CRASH, pid as i64, 0, 0);
    crate::hist::log("crash", pid as i64, 0, 0, "");
    let gl = g();
    gl.stats.f_crash += 1;
    gl.procs[pid as usize].crashed = true;
    gl.procs[pid as usize].crash_at = u64::MAX;
    for i in 0..gl.nslots {
        if i != my && gl.slots[i].pid == pid && !matches!(gl.slots[i].st, St::Exited | St::Free) {
            gl.slots[i].st = St::Crashed;
            gl.slots[i].cond = Cond::None;
        }
    }
    // the dead process's address space goes away with it: its shared mappings are unmapped
    let mut i = 0;
    while i < gl.maps.len() {
        if gl.maps[i].2 == pid {
            let (a, l, _) = gl.maps.swap_remove(i);
            unsafe { raw6(libc::SYS_munmap, a as i64, l as i64, 0, 0, 0, 0) };
            gl.stats.shared_maps -= 1;
        } else {
            i += 1;
        }
    }
    gl.slots[my].label = format!("reaper(pid{})", pid);
    progress();
    // reap descriptors one per scheduling step, ascending, as exit_files() does
    loop {
        let gl = g();
        let next = (0..MAXFD).find(|&i| gl.fds[i].open && gl.fds[i].owner == pid);
        match next {
            Some(fd) => {
                reschedule(my, false);
                let gl = g();
                let lid = gl.fds[fd].lid;
                gl.fds[fd].open = false;
                unsafe { raw6(libc::SYS_close, fd as i64, 0, 0, 0, 0, 0) };
                trace(S_REAP, lid as i64, 0, 0);
                progress();
            },
            None => break,
        }
    }
    crate::hist::log("crash.reaped", pid as i64, 0, 0, "");
    // a descriptor created by a raw system call and not yet announced to the ledger (memfd_create
    // is followed by the ftruncate that announces it) can only belong to the thread that just died
    // between the two: it goes away with its process too
    let gl = g();
    for fd in 0..4096usize {
        if !gl.fds[fd].open && !gl.baseline_fds[fd] && unsafe { raw6(libc::SYS_fcntl, fd as i64, libc::F_GETFD as i64, 0, 0, 0, 0) } >= 0 {
            unsafe { raw6(libc::SYS_close, fd as i64, 0, 0, 0, 0, 0) };
            trace(S_REAP, -1, 0, 0);
        }
    }
    let gl = g();
    gl.slots[my].st = St::Crashed;
    progress();
    reschedule(my, true);
    loop {
        unsafe { raw6(libc::SYS_pause, 0, 0, 0, 0, 0, 0) };
    }
}

// ------------------------------------------------------------------ ledger
fn ledger_add(fd: i64, kind: u8, via: u8) {
    if fd < 0 || fd as usize >= MAXFD {
        return;
    }
    let gl = g();
    let fl = unsafe { raw6(libc::SYS_fcntl, fd, libc::F_GETFD as i64, 0, 0, 0, 0) };
    let lid = gl.next_lid;
    gl.next_lid += 1;
    let owner = gl.slots[me()].pid;
    gl.fds[fd as usize] = FdInfo { open: true, owner, kind, lid, via, cloexec_at_birth: fl >= 0 && (fl & libc::FD_CLOEXEC as i64) != 0 };
}
pub fn lid_of(fd: i32) -> i64 {
    if fd < 0 || fd as usize >= MAXFD {
        return -1;
    }
    let f = &g().fds[fd as usize];
    if f.open {
        f.lid as i64
    } else {
        -(fd as i64) - 1000
    }
}
fn apply_sndbuf(fd: i32) {
    if let Some(sz) = g().cfg.sndbuf {
        let v: i32 = sz as i32;
        unsafe {
            raw6(libc::SYS_setsockopt, fd as i64, libc::SOL_SOCKET as i64, libc::SO_SNDBUF as i64, &v as *const _ as i64, 4, 0);
        }
    }
}
fn fd_fault(call: u16) -> Option<i32> {
    let gl = g();
    if gl.faults_suspended {
        return None;
    }
    let pid = gl.slots[me()].pid;
    let n = gl.procs[pid as usize].fd_creates;
    gl.procs[pid as usize].fd_creates += 1;
    let nk = gl.procs[pid as usize].fd_creates_by_call[(call % 24) as usize];
    gl.procs[pid as usize].fd_creates_by_call[(call % 24) as usize] += 1;
    for f in &gl.cfg.faults {
        if let Fault::FdErr { pid: p, nth, errno, call: c } = *f {
            if p == pid && ((c == 0 && nth == n) || (c == call && nth == nk)) {
                gl.stats.f_fderr += 1;
                trace(S_FAULT, 4, errno as i64, n as i64);
                return Some(errno);
            }
        }
    }
    None
}
/// Suspend / resume descriptor-creation faults (around calls whose failure the library turns into a panic).
pub fn suspend_fd_faults(on: bool) {
    g().faults_suspended = on;
}

// ------------------------------------------------------------------ threads
type Start = extern "C" fn(*mut libc::c_void) -> *mut libc::c_void;
struct Tramp {
    f: Start,
    arg: *mut libc::c_void,
    slot: usize,
}
static EXIT_KEY: AtomicU32 = AtomicU32::new(u32::MAX);
unsafe extern "C" fn exit_dtor(v: *mut libc::c_void) {
    // re-arm so that we run after the other TSD destructors
    let n = v as usize;
    let round = n >> 16;
    let slot = (n & 0xffff) - 1;
    if round < 2 {
        libc::pthread_setspecific(EXIT_KEY.load(SeqCst), (((round + 1) << 16) | (slot + 1)) as *mut _);
        return;
    }
    if !ACTIVE.load(SeqCst) {
        return;
    }
    let gl = g();
    if gl.slots[slot].st == St::Crashed {
        return;
    }
    trace(S_EXIT, slot as i64, 0, 0);
    gl.slots[slot].st = St::Exited;
    // whoever runs next first waits until this thread's kernel task is really gone, so that the
    // rest of its exit path never overlaps with simulated execution (measured: it can briefly
    // hold a descriptor number, which made descriptor numbering - and hence hash-map iteration
    // order inside the library - depend on real timing)
    gl.pending_exit = raw6(libc::SYS_gettid, 0, 0, 0, 0, 0, 0);
    progress();
    reschedule(slot, true);
}
fn wait_pending_exit() {
    let gl = g();
    let t = gl.pending_exit;
    if t <= 0 {
        return;
    }
    unsafe {
        let pid = raw6(libc::SYS_getpid, 0, 0, 0, 0, 0, 0);
        let mut spins = 0u64;
        while raw6(libc::SYS_tgkill, pid, t, 0, 0, 0, 0) == 0 {
            spins += 1;
            if spins > 200 {
                let ts = libc::timespec { tv_sec: 0, tv_nsec: 20_000 };
                raw6(libc::SYS_nanosleep, &ts as *const _ as i64, 0, 0, 0, 0, 0);
            } else {
                raw6(libc::SYS_sched_yield, 0, 0, 0, 0, 0, 0);
            }
            if spins > 2_000_000 {
                break;
            }
        }
    }
    g().pending_exit = 0;
}
extern "C" fn tramp(p: *mut libc::c_void) -> *mut libc::c_void {
    let t = unsafe { Box::from_raw(p as *mut Tramp) };
    ME.with(|m| m.set(t.slot));
    baton_wait(t.slot);
    wait_pending_exit();
    unsafe {
        libc::pthread_setspecific(EXIT_KEY.load(SeqCst), (t.slot + 1) as *mut _);
    }
    (t.f)(t.arg)
}
unsafe fn real_pthread_create(t: *mut libc::pthread_t, attr: *const libc::pthread_attr_t, f: Start, arg: *mut libc::c_void) -> i32 {
    #[cfg(feature = "asan")]
    {
        extern "C" {
            fn __interceptor_pthread_create(t: *mut libc::pthread_t, attr: *const libc::pthread_attr_t, f: Start, arg: *mut libc::c_void) -> i32;
        }
        return __interceptor_pthread_create(t, attr, f, arg);
    }
    #[cfg(not(feature = "asan"))]
    {
        let real: unsafe extern "C" fn(*mut libc::pthread_t, *const libc::pthread_attr_t, Start, *mut libc::c_void) -> i32 =
            std::mem::transmute(libc::dlsym(libc::RTLD_NEXT, b"pthread_create\0".as_ptr() as *const _));
        real(t, attr, f, arg)
    }
}
#[no_mangle]
pub unsafe extern "C" fn pthread_create(t: *mut libc::pthread_t, attr: *const libc::pthread_attr_t, f: Start, arg: *mut libc::c_void) -> i32 {
    if !enter(false) {
        return real_pthread_create(t, attr, f, arg);
    }
    let gl = g();
    let slot = gl.nslots;
    if slot >= MAXT {
        die("too many threads");
    }
    gl.nslots += 1;
    gl.stats.max_threads = gl.stats.max_threads.max(gl.nslots as u64);
    let my = me();
    let pid = gl.next_pid.take().unwrap_or(gl.slots[my].pid);
    let label = gl.next_label.take().unwrap_or_else(|| format!("lib@{}", gl.slots[my].label));
    let prio = gl.rng_sched.next() >> 24;
    {
        let s = &mut gl.slots[slot];
        s.st = St::Runnable;
        s.cond = Cond::None;
        s.pid = pid;
        s.label = label;
        s.prio = (1 << 21) + prio;
    }
    trace(S_SPAWN, slot as i64, pid as i64, 0);
    let b = Box::into_raw(Box::new(Tramp { f, arg, slot }));
    let r = real_pthread_create(t, attr, tramp, b as *mut _);
    if r != 0 {
        die("pthread_create failed");
    }
    g().slots[slot].pthread = *t;
    progress();
    yield_point();
    r
}
#[no_mangle]
pub unsafe extern "C" fn pthread_join(t: libc::pthread_t, retval: *mut *mut libc::c_void) -> i32 {
    let real: unsafe extern "C" fn(libc::pthread_t, *mut *mut libc::c_void) -> i32 =
        std::mem::transmute(libc::dlsym(libc::RTLD_NEXT, b"pthread_join\0".as_ptr() as *const _));
    if enter(false) {
        let gl = g();
        let n = gl.nslots;
        for i in (0..n).rev() {
            if gl.slots[i].pthread == t {
                if gl.slots[i].st != St::Exited {
                    trace(S_JOIN, i as i64, 0, 0);
                    block_on(Cond::Join(i), S_JOIN);
                }
                if g().slots[i].st == St::Crashed {
                    // a crashed thread never exits; joining it would hang for real
                    die("join on crashed thread");
                }
                break;
            }
        }
    }
    real(t, retval)
}

/// Scheduling point offered by the guarded hook in /repo (cargo feature `verif-hooks`): called
/// before every reference-count operation of the stand-in `Arc`, so that interleavings at the
/// granularity of those atomic operations can be explored (1 = clone, 2 = drop, 3 = read).
#[no_mangle]
pub extern "C" fn ipcsim_sched_point(kind: u32) {
    if enter(false) {
        g().stats.p_hook_points += 1;
        trace(S_YIELD, 2, kind as i64, 0);
        yield_point();
    }
}

// ------------------------------------------------------------------ futex / time / random
unsafe fn futex_emul(a: i64, b: i64, c: i64, d: i64) -> i64 {
    let op = (b as i32) & !(libc::FUTEX_PRIVATE_FLAG | libc::FUTEX_CLOCK_REALTIME);
    let addr = a as usize;
    if op == libc::FUTEX_WAIT || op == libc::FUTEX_WAIT_BITSET {
        let cur = (*(addr as *const AtomicU32)).load(SeqCst);
        if cur != c as u32 {
            return errno_ret(libc::EAGAIN);
        }
        let gl = g();
        let mut deadline = u64::MAX;
        if d != 0 {
            let ts = &*(d as *const libc::timespec);
            let ns = ts.tv_sec as u64 * 1_000_000_000 + ts.tv_nsec as u64;
            // WAIT: relative; WAIT_BITSET: absolute (all clocks are the one virtual clock)
            deadline = if op == libc::FUTEX_WAIT { gl.clock_ns + ns } else { ns };
        }
        gl.stats.p_futex_wait += 1;
        trace(S_FUTEX_WAIT, 0, (deadline != u64::MAX) as i64, 0);
        block_on(Cond::Futex { addr, deadline }, S_FUTEX_WAIT);
        if deadline != u64::MAX && g().clock_ns >= deadline && (*(addr as *const AtomicU32)).load(SeqCst) == c as u32 {
            return errno_ret(libc::ETIMEDOUT);
        }
        0
    } else if op == libc::FUTEX_WAKE || op == libc::FUTEX_WAKE_BITSET {
        let gl = g();
        let mut waiters: Vec<usize> = Vec::new();
        for i in 0..gl.nslots {
            let s = &gl.slots[i];
            if s.st == St::Blocked && !s.woken {
                if let Cond::Futex { addr: a2, .. } = s.cond {
                    if a2 == addr {
                        waiters.push(i);
                    }
                }
            }
        }
        let mut woken = 0i64;
        while woken < c && !waiters.is_empty() {
            let k = gl.rng_wake.below(waiters.len() as u64) as usize;
            let w = waiters.swap_remove(k);
            gl.slots[w].woken = true;
            woken += 1;
        }
        progress();
        trace(S_FUTEX_WAKE, 0, 0, woken);
        yield_point();
        woken
    } else {
        die(&format!("unhandled futex op {}", op));
    }
}
#[no_mangle]
pub unsafe extern "C" fn syscall(n: i64, a: i64, b: i64, c: i64, d: i64, e: i64, f: i64) -> i64 {
    if n == libc::SYS_futex && enter(false) {
        return futex_emul(a, b, c, d);
    }
    if n == libc::SYS_getrandom && active() {
        return getrandom(a as *mut u8, b as usize, c as u32) as i64;
    }
    ret(raw6(n, a, b, c, d, e, f))
}
#[no_mangle]
pub unsafe extern "C" fn clock_gettime(c: i32, ts: *mut libc::timespec) -> i32 {
    if active() {
        let now = g().clock_ns;
        (*ts).tv_sec = (now / 1_000_000_000) as i64;
        (*ts).tv_nsec = (now % 1_000_000_000) as i64;
        return 0;
    }
    ret(raw6(libc::SYS_clock_gettime, c as i64, ts as i64, 0, 0, 0, 0)) as i32
}
#[no_mangle]
pub unsafe extern "C" fn nanosleep(req: *const libc::timespec, rem: *mut libc::timespec) -> i32 {
    if enter(false) {
        let ns = (*req).tv_sec as u64 * 1_000_000_000 + (*req).tv_nsec as u64;
        trace(S_SLEEP, ns as i64, 0, 0);
        let d = g().clock_ns + ns;
        block_on(Cond::Deadline(d), S_SLEEP);
        return 0;
    }
    ret(raw6(libc::SYS_nanosleep, req as i64, rem as i64, 0, 0, 0, 0)) as i32
}
#[no_mangle]
pub unsafe extern "C" fn clock_nanosleep(clk: i32, flags: i32, req: *const libc::timespec, rem: *mut libc::timespec) -> i32 {
    if enter(false) {
        let ns = (*req).tv_sec as u64 * 1_000_000_000 + (*req).tv_nsec as u64;
        let dl = if flags & libc::TIMER_ABSTIME != 0 { ns } else { g().clock_ns + ns };
        trace(S_SLEEP, ns as i64, 1, 0);
        block_on(Cond::Deadline(dl), S_SLEEP);
        return 0;
    }
    let r = raw6(libc::SYS_clock_nanosleep, clk as i64, flags as i64, req as i64, rem as i64, 0, 0);
    (-r) as i32
}
#[no_mangle]
pub unsafe extern "C" fn sched_yield() -> i32 {
    if enter(false) {
        trace(S_YIELD, 1, 0, 0);
        yield_point();
        return 0;
    }
    raw6(libc::SYS_sched_yield, 0, 0, 0, 0, 0, 0) as i32
}
#[no_mangle]
pub unsafe extern "C" fn getrandom(buf: *mut u8, len: usize, flags: u32) -> isize {
    if active() {
        let gl = g();
        for i in 0..len {
            *buf.add(i) = gl.rng_data.next() as u8;
        }
        return len as isize;
    }
    ret(raw6(libc::SYS_getrandom, buf as i64, len as i64, flags as i64, 0, 0, 0)) as isize
}

// ------------------------------------------------------------------ buffer checks (ASan build)
#[cfg(feature = "asan")]
extern "C" {
    fn __asan_region_is_poisoned(beg: *const libc::c_void, size: usize) -> *const libc::c_void;
}
/// A buffer handed to the kernel must lie entirely inside live allocations.
unsafe fn check_buffer(what: &str, p: *const libc::c_void, len: usize) {
    #[cfg(feature = "asan")]
    {
        if !p.is_null() && len > 0 && !__asan_region_is_poisoned(p, len).is_null() {
            let gl = g();
            gl.stats.p_poisoned += 1;
            if gl.poison_note.is_empty() {
                gl.poison_note = format!("{}: buffer of {} bytes handed to the kernel overlaps poisoned (freed / out-of-bounds) memory", what, len);
            }
        }
    }
    #[cfg(not(feature = "asan"))]
    {
        let _ = (what, p, len);
    }
}
unsafe fn check_msghdr(what: &str, m: *const libc::msghdr, fill: bool) {
    let mh = &*m;
    for i in 0..mh.msg_iovlen {
        let iov = &*mh.msg_iov.add(i);
        check_buffer(what, iov.iov_base, iov.iov_len);
        if fill && g().cfg.canary && !iov.iov_base.is_null() {
            std::ptr::write_bytes(iov.iov_base as *mut u8, CANARY, iov.iov_len);
        }
    }
    if !mh.msg_control.is_null() {
        check_buffer(what, mh.msg_control, mh.msg_controllen as usize);
    }
}
pub const CANARY: u8 = 0xC5;

// ------------------------------------------------------------------ sockets
fn nonblocking(fd: i32) -> bool {
    let fl = unsafe { raw6(libc::SYS_fcntl, fd as i64, libc::F_GETFL as i64, 0, 0, 0, 0) };
    fl >= 0 && (fl as i32 & libc::O_NONBLOCK) != 0
}
/// returns Some(errno) if this transmission attempt is to fail; also applies corruption
unsafe fn tx_fault(data: Option<(*mut u8, usize, *mut u8, usize)>) -> Option<i32> {
    let gl = g();
    let pid = gl.slots[me()].pid;
    let n = gl.procs[pid as usize].tx_attempts;
    gl.procs[pid as usize].tx_attempts += 1;
    for i in 0..gl.cfg.faults.len() {
        match gl.cfg.faults[i] {
            Fault::TxErr { pid: p, nth, errno } if p == pid && nth == n => {
                if errno == libc::ENOBUFS {
                    gl.stats.f_enobufs += 1;
                } else {
                    gl.stats.f_txerr += 1;
                }
                trace(S_FAULT, 1, errno as i64, n as i64);
                return Some(errno);
            },
            Fault::Corrupt { pid: p, nth, iov, off, xor } if p == pid && nth == n => {
                if let Some((h, hl, b, bl)) = data {
                    let (base, len) = if iov == 0 { (h, hl) } else { (b, bl) };
                    if len > 0 && !base.is_null() {
                        let o = (off % len as u64) as usize;
                        // NOTE: the caller passes a private copy, never the library's buffer
                        *base.add(o) ^= xor;
                        gl.stats.f_corrupt += 1;
                        trace(S_FAULT, 7, o as i64, xor as i64);
                    }
                }
            },
            _ => {},
        }
    }
    None
}
fn has_corrupt_fault() -> bool {
    g().cfg.faults.iter().any(|f| matches!(f, Fault::Corrupt { .. }))
}

#[no_mangle]
pub unsafe extern "C" fn sendmsg(fd: i32, msg: *const libc::msghdr, flags: i32) -> isize {
    if !enter(true) {
        return ret(raw6(libc::SYS_sendmsg, fd as i64, msg as i64, flags as i64, 0, 0, 0)) as isize;
    }
    yield_point();
    check_msghdr("sendmsg", msg, false);
    // total length and number of descriptors (for the log)
    let m = &*msg;
    let mut total = 0usize;
    for i in 0..m.msg_iovlen {
        total += (*m.msg_iov.add(i)).iov_len;
    }
    let nfds = if m.msg_controllen as usize >= 16 && !m.msg_control.is_null() { (*(m.msg_control as *const usize) - 16) / 4 } else { 0 };
    // fault / corruption (corruption works on a private copy of the iovecs)
    let mut copy_h: Vec<u8> = Vec::new();
    let mut copy_b: Vec<u8> = Vec::new();
    let mut iov_copy = [libc::iovec { iov_base: std::ptr::null_mut(), iov_len: 0 }; 2];
    let mut hdr_copy: libc::msghdr = *msg;
    let mut use_copy = false;
    let fault = if has_corrupt_fault() && m.msg_iovlen == 2 {
        let i0 = &*m.msg_iov;
        let i1 = &*m.msg_iov.add(1);
        copy_h.extend_from_slice(std::slice::from_raw_parts(i0.iov_base as *const u8, i0.iov_len));
        copy_b.extend_from_slice(std::slice::from_raw_parts(i1.iov_base as *const u8, i1.iov_len));
        iov_copy[0] = libc::iovec { iov_base: copy_h.as_mut_ptr() as *mut _, iov_len: copy_h.len() };
        iov_copy[1] = libc::iovec { iov_base: copy_b.as_mut_ptr() as *mut _, iov_len: copy_b.len() };
        hdr_copy.msg_iov = iov_copy.as_mut_ptr();
        use_copy = true;
        tx_fault(Some((copy_h.as_mut_ptr(), copy_h.len(), copy_b.as_mut_ptr(), copy_b.len())))
    } else {
        tx_fault(None)
    };
    if let Some(e) = fault {
        trace(S_SENDMSG, lid_of(fd), total as i64, -(e as i64));
        return errno_ret(e) as isize;
    }
    let mp = if use_copy { &hdr_copy as *const _ as i64 } else { msg as i64 };
    let mut stale = false;
    loop {
        let r = raw6(libc::SYS_sendmsg, fd as i64, mp, (flags | libc::MSG_DONTWAIT | libc::MSG_NOSIGNAL) as i64, 0, 0, 0);
        if r == -(libc::EAGAIN as i64) && !nonblocking(fd) && flags & libc::MSG_DONTWAIT == 0 {
            g().stats.p_send_blocked += 1;
            trace(S_BLOCK, S_SENDMSG as i64, lid_of(fd), stale as i64);
            if stale {
                g().stats.p_stale += 1;
                let p = g().progress;
                block_on(Cond::Progress(p), S_SENDMSG);
            } else {
                block_on(Cond::Fd { fd, events: libc::POLLOUT }, S_SENDMSG);
            }
            stale = true;
            continue;
        }
        let gl = g();
        if r >= 0 {
            gl.stats.tx_ok += 1;
            gl.stats.fds_passed += nfds as u64;
            if total > 8 && (*(*m.msg_iov).iov_base.cast::<usize>()) > total - 8 {
                gl.stats.p_frag_send += 1;
            }
            progress();
        }
        if r == -(libc::EPIPE as i64) {
            // the library did not ask for MSG_NOSIGNAL: SEQPACKET never raises SIGPIPE (premise, self-tested)
        }
        trace(S_SENDMSG, lid_of(fd), ((nfds as i64) << 40) | total as i64, r);
        return ret(r) as isize;
    }
}
#[no_mangle]
pub unsafe extern "C" fn send(fd: i32, buf: *const libc::c_void, len: usize, flags: i32) -> isize {
    if !enter(true) {
        return ret(raw6(libc::SYS_sendto, fd as i64, buf as i64, len as i64, flags as i64, 0, 0)) as isize;
    }
    yield_point();
    check_buffer("send", buf, len);
    if let Some(e) = tx_fault(None) {
        trace(S_SEND, lid_of(fd), len as i64, -(e as i64));
        return errno_ret(e) as isize;
    }
    let mut stale = false;
    loop {
        let r = raw6(libc::SYS_sendto, fd as i64, buf as i64, len as i64, (flags | libc::MSG_DONTWAIT | libc::MSG_NOSIGNAL) as i64, 0, 0);
        if r == -(libc::EAGAIN as i64) && !nonblocking(fd) && flags & libc::MSG_DONTWAIT == 0 {
            g().stats.p_send_blocked += 1;
            trace(S_BLOCK, S_SEND as i64, lid_of(fd), stale as i64);
            if stale {
                g().stats.p_stale += 1;
                let p = g().progress;
                block_on(Cond::Progress(p), S_SEND);
            } else {
                block_on(Cond::Fd { fd, events: libc::POLLOUT }, S_SEND);
            }
            stale = true;
            continue;
        }
        if r >= 0 {
            let gl = g();
            gl.stats.tx_ok += 1;
            gl.stats.p_followup_tx += 1;
            progress();
        }
        trace(S_SEND, lid_of(fd), len as i64, r);
        return ret(r) as isize;
    }
}
unsafe fn absorb_cmsg(msg: *const libc::msghdr) -> i64 {
    let m = &*msg;
    let mut n = 0;
    if m.msg_controllen as usize >= 16 && !m.msg_control.is_null() {
        let c = m.msg_control as *const u8;
        let clen = *(c as *const usize);
        let lvl = *(c.add(8) as *const i32);
        let ty = *(c.add(12) as *const i32);
        if lvl == libc::SOL_SOCKET && ty == 1 && clen >= 16 {
            let nf = (clen - 16) / 4;
            for i in 0..nf {
                ledger_add(*(c.add(16 + 4 * i) as *const i32) as i64, K_RECEIVED, 1);
                n += 1;
            }
        }
    }
    if m.msg_flags & libc::MSG_CTRUNC != 0 {
        g().stats.p_ctrunc += 1;
    }
    if m.msg_flags & libc::MSG_TRUNC != 0 {
        g().stats.p_trunc += 1;
    }
    n
}
#[no_mangle]
pub unsafe extern "C" fn recvmsg(fd: i32, msg: *mut libc::msghdr, flags: i32) -> isize {
    if !enter(true) {
        return ret(raw6(libc::SYS_recvmsg, fd as i64, msg as i64, flags as i64, 0, 0, 0)) as isize;
    }
    yield_point();
    check_msghdr("recvmsg", msg, true);
    let ctl_len = (*msg).msg_controllen;
    loop {
        (*msg).msg_controllen = ctl_len;
        let r = raw6(libc::SYS_recvmsg, fd as i64, msg as i64, (flags | libc::MSG_DONTWAIT) as i64, 0, 0, 0);
        if r == -(libc::EAGAIN as i64) && !nonblocking(fd) && flags & libc::MSG_DONTWAIT == 0 {
            g().stats.p_recv_blocked += 1;
            trace(S_BLOCK, S_RECVMSG as i64, lid_of(fd), 0);
            block_on(Cond::Fd { fd, events: libc::POLLIN }, S_RECVMSG);
            continue;
        }
        let mut nf = 0;
        if r >= 0 {
            nf = absorb_cmsg(msg);
            g().stats.rx_ok += (r > 0) as u64;
            progress();
        }
        trace(S_RECVMSG, lid_of(fd), nf, r);
        return ret(r) as isize;
    }
}
#[no_mangle]
pub unsafe extern "C" fn recv(fd: i32, buf: *mut libc::c_void, len: usize, flags: i32) -> isize {
    if !enter(true) {
        return ret(raw6(libc::SYS_recvfrom, fd as i64, buf as i64, len as i64, flags as i64, 0, 0)) as isize;
    }
    yield_point();
    check_buffer("recv", buf, len);
    if g().cfg.canary && !buf.is_null() {
        std::ptr::write_bytes(buf as *mut u8, CANARY, len);
    }
    loop {
        // MSG_TRUNC makes the kernel report the real packet length, so a packet that did not fit
        // the buffer the receiver offered is visible at the seam (the library sees min(len, real)).
        let r = raw6(libc::SYS_recvfrom, fd as i64, buf as i64, len as i64, (flags | libc::MSG_DONTWAIT | libc::MSG_TRUNC) as i64, 0, 0);
        if r == -(libc::EAGAIN as i64) && !nonblocking(fd) && flags & libc::MSG_DONTWAIT == 0 {
            g().stats.p_followup_blocked += 1;
            trace(S_BLOCK, S_RECV as i64, lid_of(fd), 0);
            block_on(Cond::Fd { fd, events: libc::POLLIN }, S_RECV);
            continue;
        }
        let mut rr = r;
        if r >= 0 {
            if r as usize > len {
                g().stats.p_trunc += 1;
                rr = len as i64;
            }
            g().stats.rx_ok += (r > 0) as u64;
            progress();
        }
        trace(S_RECV, lid_of(fd), len as i64, r);
        return ret(rr) as isize;
    }
}
#[no_mangle]
pub unsafe extern "C" fn epoll_pwait(ep: i32, ev: *mut libc::epoll_event, n: i32, to: i32, _sigmask: *const libc::sigset_t) -> i32 {
    epoll_wait(ep, ev, n, to)
}
#[no_mangle]
pub unsafe extern "C" fn epoll_pwait2(ep: i32, ev: *mut libc::epoll_event, n: i32, ts: *const libc::timespec, _sigmask: *const libc::sigset_t) -> i32 {
    // (millisecond granularity, rounded up: nothing in the dependency tree uses this call today)
    let to = if ts.is_null() { -1 } else { (((*ts).tv_sec.max(0) as i64).saturating_mul(1000).saturating_add(((*ts).tv_nsec.max(0) as i64 + 999_999) / 1_000_000)).min(i32::MAX as i64) as i32 };
    epoll_wait(ep, ev, n, to)
}
#[no_mangle]
pub unsafe extern "C" fn epoll_wait(ep: i32, ev: *mut libc::epoll_event, n: i32, to: i32) -> i32 {
    if !enter(true) {
        return ret(raw6(libc::SYS_epoll_wait, ep as i64, ev as i64, n as i64, to as i64, 0, 0)) as i32;
    }
    yield_point();
    let gl = g();
    let pid = gl.slots[me()].pid;
    let nth = gl.procs[pid as usize].epoll_waits;
    gl.procs[pid as usize].epoll_waits += 1;
    let mut maxev = n;
    for i in 0..gl.cfg.faults.len() {
        match gl.cfg.faults[i] {
            Fault::Eintr { pid: p, nth: k } if p == pid && k == nth => {
                gl.stats.f_eintr += 1;
                trace(S_FAULT, 2, nth as i64, 0);
                return errno_ret(libc::EINTR) as i32;
            },
            Fault::ShortBatch { pid: p, nth: k, max } if p == pid && k == nth => {
                maxev = max.clamp(1, n);
            },
            _ => {},
        }
    }
    let deadline = if to < 0 { u64::MAX } else { gl.clock_ns + to as u64 * 1_000_000 };
    loop {
        let r = raw6(libc::SYS_epoll_wait, ep as i64, ev as i64, maxev as i64, 0, 0, 0);
        if r == 0 && g().clock_ns < deadline {
            g().stats.p_epoll_blocked += 1;
            trace(S_BLOCK, S_EPOLL_WAIT as i64, lid_of(ep), 0);
            if deadline == u64::MAX {
                block_on(Cond::Fd { fd: ep, events: libc::POLLIN }, S_EPOLL_WAIT);
            } else {
                block_on(Cond::FdOrDeadline { fd: ep, events: libc::POLLIN, deadline }, S_EPOLL_WAIT);
            }
            continue;
        }
        let gl = g();
        if r == n as i64 {
            gl.stats.p_epoll_full += 1;
        }
        if maxev < n && r == maxev as i64 {
            gl.stats.f_short += 1;
        }
        progress();
        trace(S_EPOLL_WAIT, lid_of(ep), maxev as i64, r);
        return ret(r) as i32;
    }
}
#[no_mangle]
pub unsafe extern "C" fn poll(fds: *mut libc::pollfd, n: libc::nfds_t, to: i32) -> i32 {
    if !enter(true) {
        return ret(raw6(libc::SYS_poll, fds as i64, n as i64, to as i64, 0, 0, 0)) as i32;
    }
    poll_ns(fds, n, if to < 0 { None } else { Some(to as u64 * 1_000_000) }, to as i64)
}
/// The same wait with a nanosecond timeout: code that switches from poll to ppoll stays inside
/// the simulation (a real ppoll would block the baton holder in real time).
#[no_mangle]
pub unsafe extern "C" fn ppoll(fds: *mut libc::pollfd, n: libc::nfds_t, ts: *const libc::timespec, sigmask: *const libc::sigset_t) -> i32 {
    if !enter(true) {
        return ret(raw6(libc::SYS_ppoll, fds as i64, n as i64, ts as i64, sigmask as i64, 8, 0)) as i32;
    }
    let to = if ts.is_null() { None } else { Some(((*ts).tv_sec.max(0) as u64).saturating_mul(1_000_000_000).saturating_add((*ts).tv_nsec.max(0) as u64)) };
    poll_ns(fds, n, to, to.map(|t| (t / 1_000_000).min(i64::MAX as u64) as i64).unwrap_or(-1))
}
unsafe fn poll_ns(fds: *mut libc::pollfd, n: libc::nfds_t, to_ns: Option<u64>, to: i64) -> i32 {
    yield_point();
    let gl = g();
    let pid = gl.slots[me()].pid;
    let nth = gl.procs[pid as usize].polls;
    gl.procs[pid as usize].polls += 1;
    for i in 0..gl.cfg.faults.len() {
        if let Fault::PollEintr { pid: p, nth: k } = gl.cfg.faults[i] {
            if p == pid && k == nth {
                gl.stats.f_poll_eintr += 1;
                trace(S_FAULT, 5, nth as i64, 0);
                return errno_ret(libc::EINTR) as i32;
            }
        }
    }
    let deadline = match to_ns {
        None => u64::MAX,
        Some(t) => gl.clock_ns.saturating_add(t).min(u64::MAX - 1),
    };
    loop {
        let r = raw6(libc::SYS_poll, fds as i64, n as i64, 0, 0, 0, 0);
        if r == 0 && g().clock_ns < deadline {
            if n != 1 {
                die("poll with n != 1 would block");
            }
            let p = &*fds;
            trace(S_BLOCK, S_POLL as i64, lid_of(p.fd), 0);
            if deadline == u64::MAX {
                block_on(Cond::Fd { fd: p.fd, events: p.events }, S_POLL);
            } else {
                block_on(Cond::FdOrDeadline { fd: p.fd, events: p.events, deadline }, S_POLL);
            }
            continue;
        }
        if r == 0 {
            g().stats.p_poll_timeout += 1;
        }
        trace(S_POLL, if n == 1 { lid_of((*fds).fd) } else { -1 }, to, r);
        return ret(r) as i32;
    }
}
#[no_mangle]
pub unsafe extern "C" fn close(fd: i32) -> i32 {
    if enter(true) {
        yield_point();
        let gl = g();
        let lid = lid_of(fd);
        let known = fd >= 0 && (fd as usize) < MAXFD && gl.fds[fd as usize].open;
        if known {
            gl.fds[fd as usize].open = false;
        }
        let r = raw6(libc::SYS_close, fd as i64, 0, 0, 0, 0, 0);
        if r < 0 {
            g().stats.bad_close += 1;
        }
        trace(S_CLOSE, lid, known as i64, r);
        progress();
        return ret(r) as i32;
    }
    ret(raw6(libc::SYS_close, fd as i64, 0, 0, 0, 0, 0)) as i32
}
#[no_mangle]
pub unsafe extern "C" fn socketpair(d: i32, t: i32, p: i32, sv: *mut i32) -> i32 {
    if !enter(true) {
        return ret(raw6(libc::SYS_socketpair, d as i64, t as i64, p as i64, sv as i64, 0, 0)) as i32;
    }
    yield_point();
    if let Some(e) = fd_fault(S_SOCKETPAIR) {
        trace(S_SOCKETPAIR, 0, 0, -(e as i64));
        return errno_ret(e) as i32;
    }
    let r = raw6(libc::SYS_socketpair, d as i64, t as i64, p as i64, sv as i64, 0, 0);
    if r == 0 {
        ledger_add(*sv as i64, K_SOCK, 0);
        ledger_add(*sv.add(1) as i64, K_SOCK, 0);
        apply_sndbuf(*sv);
        apply_sndbuf(*sv.add(1));
        progress();
        trace(S_SOCKETPAIR, lid_of(*sv), lid_of(*sv.add(1)), 0);
    } else {
        trace(S_SOCKETPAIR, 0, 0, r);
    }
    ret(r) as i32
}
#[no_mangle]
pub unsafe extern "C" fn socket(d: i32, t: i32, p: i32) -> i32 {
    if !enter(true) {
        return ret(raw6(libc::SYS_socket, d as i64, t as i64, p as i64, 0, 0, 0)) as i32;
    }
    yield_point();
    if let Some(e) = fd_fault(S_SOCKET) {
        trace(S_SOCKET, 0, 0, -(e as i64));
        return errno_ret(e) as i32;
    }
    let r = raw6(libc::SYS_socket, d as i64, t as i64, p as i64, 0, 0, 0);
    if r >= 0 {
        ledger_add(r, K_SOCK, 0);
        apply_sndbuf(r as i32);
        progress();
    }
    trace(S_SOCKET, lid_of(r as i32), 0, if r >= 0 { 0 } else { r });
    ret(r) as i32
}
unsafe fn accept_common(fd: i32, a: *mut libc::sockaddr, l: *mut libc::socklen_t, flags: i32) -> i32 {
    yield_point();
    loop {
        if !fd_ready(fd, libc::POLLIN) && !nonblocking(fd) {
            trace(S_BLOCK, S_ACCEPT as i64, lid_of(fd), 0);
            block_on(Cond::Fd { fd, events: libc::POLLIN }, S_ACCEPT);
            continue;
        }
        if let Some(e) = fd_fault(S_ACCEPT) {
            trace(S_ACCEPT, lid_of(fd), 0, -(e as i64));
            return errno_ret(e) as i32;
        }
        let r = raw6(libc::SYS_accept4, fd as i64, a as i64, l as i64, flags as i64, 0, 0);
        if r >= 0 {
            ledger_add(r, K_SOCK, 0);
            apply_sndbuf(r as i32);
            progress();
        }
        trace(S_ACCEPT, lid_of(fd), lid_of(r as i32), if r >= 0 { 0 } else { r });
        return ret(r) as i32;
    }
}
#[no_mangle]
pub unsafe extern "C" fn accept(fd: i32, a: *mut libc::sockaddr, l: *mut libc::socklen_t) -> i32 {
    if !enter(true) {
        return ret(raw6(libc::SYS_accept, fd as i64, a as i64, l as i64, 0, 0, 0)) as i32;
    }
    accept_common(fd, a, l, 0)
}
#[no_mangle]
pub unsafe extern "C" fn accept4(fd: i32, a: *mut libc::sockaddr, l: *mut libc::socklen_t, flags: i32) -> i32 {
    if !enter(true) {
        return ret(raw6(libc::SYS_accept4, fd as i64, a as i64, l as i64, flags as i64, 0, 0)) as i32;
    }
    accept_common(fd, a, l, flags)
}
#[no_mangle]
pub unsafe extern "C" fn connect(fd: i32, a: *const libc::sockaddr, l: libc::socklen_t) -> i32 {
    if !enter(true) {
        return ret(raw6(libc::SYS_connect, fd as i64, a as i64, l as i64, 0, 0, 0)) as i32;
    }
    yield_point();
    loop {
        let was_nb = nonblocking(fd);
        let fl = raw6(libc::SYS_fcntl, fd as i64, libc::F_GETFL as i64, 0, 0, 0, 0);
        if !was_nb {
            raw6(libc::SYS_fcntl, fd as i64, libc::F_SETFL as i64, fl | libc::O_NONBLOCK as i64, 0, 0, 0);
        }
        let r = raw6(libc::SYS_connect, fd as i64, a as i64, l as i64, 0, 0, 0);
        if !was_nb {
            raw6(libc::SYS_fcntl, fd as i64, libc::F_SETFL as i64, fl, 0, 0, 0);
        }
        if r == -(libc::EAGAIN as i64) && !was_nb {
            trace(S_BLOCK, S_CONNECT as i64, lid_of(fd), 0);
            let p = g().progress;
            block_on(Cond::Progress(p), S_CONNECT);
            continue;
        }
        if r == 0 {
            progress();
        }
        trace(S_CONNECT, lid_of(fd), 0, r);
        return ret(r) as i32;
    }
}
#[no_mangle]
pub unsafe extern "C" fn bind(fd: i32, a: *const libc::sockaddr, l: libc::socklen_t) -> i32 {
    let r = raw6(libc::SYS_bind, fd as i64, a as i64, l as i64, 0, 0, 0);
    if enter(true) {
        yield_point();
        trace(S_BIND, lid_of(fd), 0, r);
    }
    ret(r) as i32
}
#[no_mangle]
pub unsafe extern "C" fn listen(fd: i32, n: i32) -> i32 {
    let r = raw6(libc::SYS_listen, fd as i64, n as i64, 0, 0, 0, 0);
    if enter(true) {
        if r == 0 && fd >= 0 && (fd as usize) < MAXFD {
            g().fds[fd as usize].kind = K_LISTEN;
        }
        yield_point();
        trace(S_LISTEN, lid_of(fd), n as i64, r);
        progress();
    }
    ret(r) as i32
}
#[no_mangle]
pub unsafe extern "C" fn epoll_create1(flags: i32) -> i32 {
    if !enter(true) {
        return ret(raw6(libc::SYS_epoll_create1, flags as i64, 0, 0, 0, 0, 0)) as i32;
    }
    yield_point();
    if let Some(e) = fd_fault(S_EPOLL_CREATE) {
        trace(S_EPOLL_CREATE, 0, 0, -(e as i64));
        return errno_ret(e) as i32;
    }
    let r = raw6(libc::SYS_epoll_create1, flags as i64, 0, 0, 0, 0, 0);
    if r >= 0 {
        ledger_add(r, K_EPOLL, 0);
    }
    trace(S_EPOLL_CREATE, lid_of(r as i32), 0, if r >= 0 { 0 } else { r });
    ret(r) as i32
}
#[no_mangle]
pub unsafe extern "C" fn epoll_ctl(ep: i32, op: i32, fd: i32, ev: *mut libc::epoll_event) -> i32 {
    if !enter(true) {
        return ret(raw6(libc::SYS_epoll_ctl, ep as i64, op as i64, fd as i64, ev as i64, 0, 0)) as i32;
    }
    yield_point();
    let r = raw6(libc::SYS_epoll_ctl, ep as i64, op as i64, fd as i64, ev as i64, 0, 0);
    progress();
    trace(S_EPOLL_CTL, lid_of(ep), ((op as i64) << 32) | (lid_of(fd) & 0xffff_ffff), r);
    ret(r) as i32
}
#[no_mangle]
pub unsafe extern "C" fn dup(fd: i32) -> i32 {
    if !enter(true) {
        return ret(raw6(libc::SYS_dup, fd as i64, 0, 0, 0, 0, 0)) as i32;
    }
    yield_point();
    if let Some(e) = fd_fault(S_DUP) {
        trace(S_DUP, lid_of(fd), 0, -(e as i64));
        return errno_ret(e) as i32;
    }
    let r = raw6(libc::SYS_dup, fd as i64, 0, 0, 0, 0, 0);
    if r >= 0 {
        ledger_add(r, K_DUP, 0);
    }
    trace(S_DUP, lid_of(fd), lid_of(r as i32), if r >= 0 { 0 } else { r });
    ret(r) as i32
}
#[no_mangle]
pub unsafe extern "C" fn fcntl(fd: i32, cmd: i32, arg: usize) -> i32 {
    if !enter(true) {
        return ret(raw6(libc::SYS_fcntl, fd as i64, cmd as i64, arg as i64, 0, 0, 0)) as i32;
    }
    yield_point();
    let creates = cmd == libc::F_DUPFD || cmd == libc::F_DUPFD_CLOEXEC;
    if creates {
        if let Some(e) = fd_fault(S_FCNTL) {
            return errno_ret(e) as i32;
        }
    }
    let r = raw6(libc::SYS_fcntl, fd as i64, cmd as i64, arg as i64, 0, 0, 0);
    if creates && r >= 0 {
        ledger_add(r, K_DUP, 0);
    }
    // (commands without an argument leave the third register undefined: do not record it)
    let has_arg = creates || cmd == libc::F_SETFL || cmd == libc::F_SETFD;
    trace(S_FCNTL, lid_of(fd), ((cmd as i64) << 32) | if has_arg { arg as i64 & 0xffff_ffff } else { 0 }, if creates && r >= 0 { lid_of(r as i32) } else { r });
    ret(r) as i32
}
#[no_mangle]
pub unsafe extern "C" fn fcntl64(fd: i32, cmd: i32, arg: usize) -> i32 {
    fcntl(fd, cmd, arg)
}
#[no_mangle]
pub unsafe extern "C" fn shm_open(name: *const libc::c_char, oflag: i32, mode: libc::mode_t) -> i32 {
    let real: unsafe extern "C" fn(*const libc::c_char, i32, libc::mode_t) -> i32 =
        std::mem::transmute(libc::dlsym(libc::RTLD_NEXT, b"shm_open\0".as_ptr() as *const _));
    if !enter(true) {
        return real(name, oflag, mode);
    }
    yield_point();
    if let Some(e) = fd_fault(S_SHM_OPEN) {
        trace(S_SHM_OPEN, 0, 0, -(e as i64));
        return errno_ret(e) as i32;
    }
    let r = real(name, oflag, mode);
    if r >= 0 {
        ledger_add(r as i64, K_SHM, 0);
    }
    trace(S_SHM_OPEN, lid_of(r), 0, if r >= 0 { 0 } else { -(*libc::__errno_location() as i64) });
    r
}
#[no_mangle]
pub unsafe extern "C" fn ftruncate(fd: i32, len: libc::off_t) -> i32 {
    let r = raw6(libc::SYS_ftruncate, fd as i64, len, 0, 0, 0, 0);
    if enter(true) {
        // a descriptor the ledger has never seen: created by a raw syscall (memfd_create)
        if fd >= 0 && (fd as usize) < MAXFD && !g().fds[fd as usize].open {
            ledger_add(fd as i64, K_SHM, 0);
        }
        trace(S_FTRUNCATE, lid_of(fd), len, r);
    }
    ret(r) as i32
}
#[no_mangle]
pub unsafe extern "C" fn ftruncate64(fd: i32, len: libc::off_t) -> i32 {
    ftruncate(fd, len)
}
#[cfg(not(feature = "asan"))]
#[no_mangle]
pub unsafe extern "C" fn mmap(addr: *mut libc::c_void, len: usize, prot: i32, flags: i32, fd: i32, off: libc::off_t) -> *mut libc::c_void {
    let r = raw6(libc::SYS_mmap, addr as i64, len as i64, prot as i64, flags as i64, fd as i64, off);
    if fd >= 0 && flags & libc::MAP_SHARED != 0 && enter(false) && !(r < 0 && r > -4096) {
        let gl = g();
        let owner = gl.slots[me()].pid;
        gl.maps.push((r as usize, len, owner));
        gl.stats.shared_maps += 1;
        gl.stats.shared_maps_total += 1;
        trace(S_MMAP, lid_of(fd), len as i64, 0);
    }
    ret(r) as *mut libc::c_void
}
#[cfg(not(feature = "asan"))]
#[no_mangle]
pub unsafe extern "C" fn mmap64(addr: *mut libc::c_void, len: usize, prot: i32, flags: i32, fd: i32, off: libc::off_t) -> *mut libc::c_void {
    mmap(addr, len, prot, flags, fd, off)
}
#[cfg(not(feature = "asan"))]
#[no_mangle]
pub unsafe extern "C" fn munmap(addr: *mut libc::c_void, len: usize) -> i32 {
    let r = raw6(libc::SYS_munmap, addr as i64, len as i64, 0, 0, 0, 0);
    if active() {
        let my = me();
        let gl = g();
        if my != usize::MAX && !matches!(gl.slots[my].st, St::Exited | St::Crashed) {
            if let Some(i) = gl.maps.iter().position(|m| m.0 == addr as usize) {
                let (_, l, _) = gl.maps.swap_remove(i);
                gl.stats.shared_maps -= 1;
                trace(S_MUNMAP, l as i64, len as i64, r);
            }
        }
    }
    ret(r) as i32
}

// ------------------------------------------------------------------ a real fork()ed child
// The one thing sim-processes (thread groups in one address space) cannot represent is a child
// that starts with a *copy* of the library's statics and of the parent's mappings. `fork_real`
// makes one: the calling sim thread really forks; the child leaves the simulation (every seam
// passes through), runs `f` natively and exits with its result. The parent keeps the baton for the
// whole time, so the only concurrency is between the parent's current thread and the child, and
// that is controlled: with `hold_at_unlink` the child parks at its first `shm_unlink` (i.e. inside
// its first shm_open-backed region creation, the named object still existing) until released.
#[repr(C)]
pub struct ForkPage {
    pub parked: AtomicU32,
    pub release: AtomicU32,
    pub msg_len: AtomicU32,
    pub msg: [u8; 400],
}
static FORK_HOLD: AtomicUsize = AtomicUsize::new(0);
pub struct ForkChild {
    pid: i32,
    page: *mut ForkPage,
    status: Cell<Option<i32>>,
    done: bool,
}
impl Drop for ForkChild {
    fn drop(&mut self) {
        // the parent unwound past the child (a panic between fork and wait): let it go and reap it
        if !self.done {
            self.release();
            if self.status.get().is_none() {
                let mut st = 0i32;
                unsafe { raw6(libc::SYS_wait4, self.pid as i64, &mut st as *mut i32 as i64, 0, 0, 0, 0) };
            }
        }
    }
}
unsafe impl Send for ForkChild {}

fn real_sleep_us(us: i64) {
    let ts = libc::timespec { tv_sec: 0, tv_nsec: us * 1000 };
    unsafe { raw6(libc::SYS_nanosleep, &ts as *const _ as i64, 0, 0, 0, 0, 0) };
}

pub fn fork_real<F: FnOnce() -> i32>(hold_at_unlink: bool, f: F) -> ForkChild {
    let page = unsafe { raw6(libc::SYS_mmap, 0, 4096, (libc::PROT_READ | libc::PROT_WRITE) as i64, (libc::MAP_SHARED | libc::MAP_ANONYMOUS) as i64, -1, 0) };
    if page < 0 && page > -4096 {
        die("fork_real: mmap failed");
    }
    let page = page as *mut ForkPage;
    let pid = unsafe { libc::fork() };
    if pid == 0 {
        ACTIVE.store(false, SeqCst);
        if hold_at_unlink {
            FORK_HOLD.store(page as usize, SeqCst);
        }
        unsafe { libc::alarm(30) };
        let code = match std::panic::catch_unwind(std::panic::AssertUnwindSafe(f)) {
            Ok(c) => c,
            Err(e) => {
                let m: String = if let Some(s) = e.downcast_ref::<&str>() { s.to_string() } else if let Some(s) = e.downcast_ref::<String>() { s.clone() } else { "panic".into() };
                let b = m.as_bytes();
                let n = b.len().min(400);
                unsafe {
                    (&mut (*page).msg)[..n].copy_from_slice(&b[..n]);
                    (*page).msg_len.store(n as u32, SeqCst);
                }
                101
            },
        };
        unsafe { raw6(libc::SYS_exit_group, code as i64, 0, 0, 0, 0, 0) };
        unreachable!();
    }
    if pid < 0 {
        die("fork_real: fork failed");
    }
    if active() {
        g().stats.f_fork_real += 1;
    }
    ForkChild { pid, page, status: Cell::new(None), done: false }
}
impl ForkChild {
    /// Real-time wait (the parent holds the baton, nothing else runs) until the child has parked at
    /// its first shm_unlink; false if it exited (or 10 s passed) without parking.
    pub fn wait_parked(&self) -> bool {
        for _ in 0..200_000 {
            if unsafe { (*self.page).parked.load(SeqCst) } == 1 {
                return true;
            }
            let mut st = 0i32;
            let r = unsafe { raw6(libc::SYS_wait4, self.pid as i64, &mut st as *mut i32 as i64, libc::WNOHANG as i64, 0, 0, 0) };
            if r == self.pid as i64 {
                self.status.set(Some(st));
                return false;
            }
            real_sleep_us(50);
        }
        false
    }
    pub fn release(&self) {
        unsafe { (*self.page).release.store(1, SeqCst) };
    }
    /// (exit code or 1000 + signal, panic message if any)
    pub fn wait(mut self) -> (i32, String) {
        self.done = true;
        self.release();
        let mut st = self.status.get().unwrap_or(0);
        while self.status.get().is_none() {
            let r = unsafe { raw6(libc::SYS_wait4, self.pid as i64, &mut st as *mut i32 as i64, 0, 0, 0, 0) };
            if r == self.pid as i64 || (r < 0 && r != -(libc::EINTR as i64)) {
                break;
            }
        }
        let n = unsafe { (*self.page).msg_len.load(SeqCst) } as usize;
        let msg = unsafe { String::from_utf8_lossy(&(&(*self.page).msg)[..n.min(400)]).to_string() };
        unsafe { raw6(libc::SYS_munmap, self.page as i64, 4096, 0, 0, 0, 0) };
        let code = if libc::WIFEXITED(st) { libc::WEXITSTATUS(st) } else { 1000 + libc::WTERMSIG(st) };
        (code, msg)
    }
}
#[no_mangle]
pub unsafe extern "C" fn shm_unlink(name: *const libc::c_char) -> i32 {
    let real: unsafe extern "C" fn(*const libc::c_char) -> i32 = std::mem::transmute(libc::dlsym(libc::RTLD_NEXT, b"shm_unlink\0".as_ptr() as *const _));
    let page = FORK_HOLD.swap(0, SeqCst);
    if page != 0 {
        // forked child, first region creation: the named object exists; park until the parent lets go
        let pg = page as *mut ForkPage;
        (*pg).parked.store(1, SeqCst);
        for _ in 0..200_000 {
            if (*pg).release.load(SeqCst) == 1 {
                break;
            }
            real_sleep_us(50);
        }
    }
    real(name)
}

// ------------------------------------------------------------------ calls the library does not make today
// A change to the library may move to a sibling of a call the seam covers. A real blocking call
// made by the baton holder would stall the whole run in real time, so the siblings are routed
// into the same emulation (only for descriptors the ledger knows as sockets; everything else -
// files, stdio, /proc - goes straight to the kernel as before).
fn ledger_socket(fd: i32) -> bool {
    if !active() || fd < 0 || fd as usize >= MAXFD {
        return false;
    }
    let i = &g().fds[fd as usize];
    i.open && (i.kind == K_SOCK || i.kind == K_RECEIVED)
}
#[no_mangle]
pub unsafe extern "C" fn sendto(fd: i32, buf: *const libc::c_void, len: usize, flags: i32, addr: *const libc::sockaddr, alen: libc::socklen_t) -> isize {
    if addr.is_null() && ledger_socket(fd) {
        return send(fd, buf, len, flags);
    }
    ret(raw6(libc::SYS_sendto, fd as i64, buf as i64, len as i64, flags as i64, addr as i64, alen as i64)) as isize
}
#[no_mangle]
pub unsafe extern "C" fn recvfrom(fd: i32, buf: *mut libc::c_void, len: usize, flags: i32, addr: *mut libc::sockaddr, alen: *mut libc::socklen_t) -> isize {
    if addr.is_null() && ledger_socket(fd) {
        return recv(fd, buf, len, flags);
    }
    ret(raw6(libc::SYS_recvfrom, fd as i64, buf as i64, len as i64, flags as i64, addr as i64, alen as i64)) as isize
}
#[no_mangle]
pub unsafe extern "C" fn read(fd: i32, buf: *mut libc::c_void, len: usize) -> isize {
    if ledger_socket(fd) {
        return recv(fd, buf, len, 0);
    }
    ret(raw6(libc::SYS_read, fd as i64, buf as i64, len as i64, 0, 0, 0)) as isize
}
#[no_mangle]
pub unsafe extern "C" fn write(fd: i32, buf: *const libc::c_void, len: usize) -> isize {
    if ledger_socket(fd) {
        return send(fd, buf, len, 0);
    }
    ret(raw6(libc::SYS_write, fd as i64, buf as i64, len as i64, 0, 0, 0)) as isize
}
