#!/bin/bash
# usage: tools/confirm_mutant.sh <dir-with-patch.diff-and-demo> [demo-file ...]
# Confirms, in a scratch worktree of /repo's current HEAD (outside /repo and /verif), that the seeded
# change compiles, passes the pinned suite, and that its demonstration fails with it and passes without.
# Writes <dir>/confirm.json. The worktree and its build output are removed afterwards.
set -u
D=$(realpath "$1"); shift
NAME=$(basename "$D")
WT=/tmp/confirm-$NAME-$$
export CARGO_NET_OFFLINE=true
git -C /repo worktree add -q --detach "$WT" HEAD || exit 2
cleanup() { git -C /repo worktree remove --force "$WT" 2>/dev/null; rm -rf "$WT"; }
trap cleanup EXIT
cd "$WT"
mkdir -p tests
for f in "$D"/*.rs; do [ -f "$f" ] && cp "$f" tests/; done
DEMOS=$(cd tests && ls *.rs 2>/dev/null | sed 's/\.rs$//')
applies=false; suite=false; demo_with="n/a"; demo_without="n/a"
if git apply --check "$D/patch.diff" 2>/dev/null; then applies=true; fi
run_demos() { # returns 0 if all demos pass
  local rc=0
  for t in $DEMOS; do
    timeout 600 cargo test --offline ${FEATURES:-} --test "$t" -- --test-threads 1 > "$D/demo_$1_$t.log" 2>&1 || rc=1
  done
  return $rc
}
if $applies; then
  # without the change
  if run_demos without; then demo_without=pass; else demo_without=fail; fi
  git apply "$D/patch.diff"
  mv tests tests.off
  if timeout 900 cargo test --workspace --no-fail-fast --offline > "$D/suite_with.log" 2>&1; then suite=true; fi
  mv tests.off tests
  if run_demos with; then demo_with=pass; else demo_with=fail; fi
fi
passed=$(grep -E "^test result" "$D/suite_with.log" 2>/dev/null | head -1)
cat > "$D/confirm.json" <<EOT
{"name": "$NAME", "repo_head": "$(git -C /repo rev-parse --short HEAD)", "patch_applies": $applies, "suite_passes_with_patch": $suite,
 "suite_summary": "$passed", "demo_without_patch": "$demo_without", "demo_with_patch": "$demo_with",
 "confirmed": $([ "$applies" = true ] && [ "$suite" = true ] && [ "$demo_without" = pass ] && [ "$demo_with" = fail ] && echo true || echo false)}
EOT
cat "$D/confirm.json"
