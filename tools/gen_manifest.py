#!/usr/bin/env python3
"""Generates /verif/MANIFEST.json from the table below (kept next to the checks so it stays current)."""
import json, os
ROOT = os.path.dirname(os.path.dirname(os.path.abspath(__file__)))

COMMON_NOTE = ("Trusted base: the Linux kernel (premises re-validated by ./run selftest), glibc symbol interposition, the harness's scheduler/oracle code. "
               "Seeded search samples; it does not prove. Only the Linux back ends (shm_open, memfd, in-process) run; sim-processes share one address space.")

CHECKS = {
 # id: (category, technique, text, design_ref)
 "C02": ("exploration", "deterministic simulation: seeded schedule search over real threads at libc-call granularity; history oracle (exactly-once, whole, real-time order)",
         "Runs 1..8 real sender threads/sim-processes against every receiver style under a seeded scheduler that pre-empts at every packet transmission; the recorded history is checked for exactly-once, whole-message and happens-before order. Sampling of schedules, not proof.", "5/C02"),
 "C03": ("exploration", "deterministic simulation: seeded histories + schedules; interval (invoke/return) lineage model of sender handles as oracle",
         "Seeded histories of clone/move/embed/extract/drop/drop-carrier over <=6 channels run on real threads and sim-processes (which may die) under a seeded scheduler, on the OS, memfd, in-process builds and on a build with the guarded Arc scheduling hook (interleavings at reference-count operations); every 'disconnected', 'empty' and blocked-at-quiescence verdict of the observers is judged against a handle-lineage model that uses only certain (invoke/return-ordered) facts. Sampling, not proof.", "5/C03"),
 "C09": ("exploration", "deterministic simulation: seeded schedule search with receiver drop / process crash / in-transit destruction placed at every packet boundary; quiescence (hang) detection",
         "A stream of sends races with the receiver being dropped, its sim-process crashing (optionally at the k-th system call of a receive), or being destroyed/unpacked while in transit; oracle: no Ok after the receiver certainly ceased to exist, no sender blocked at quiescence, no SIGPIPE, all sends Ok and delivered for a receiver in transit. Sampling, not proof.", "5/C09"),
 "C10": ("exploration", "deterministic simulation: virtual discrete-event clock + seeded schedules; per-call timing/result oracle",
         "Receiver scripts mixing recv/try_recv/try_recv_timeout(d) run against senders that sleep in virtual time, send and drop, so arrivals and drops land before, inside and after each wait; every call is judged for result, for elapsed virtual time (try_recv: none; timeout: >= d to the ms when empty, no time after the event otherwise) and for not poisoning later blocking receives. Sampling, not proof.", "5/C10"),
 "C12": ("fault_enumeration", "deterministic simulation with crash injection enumerated over every system-call boundary of the send, crossed with seeded schedules",
         "The victim sim-process is crashed before its k-th system call of the send for every k (and after it, and clean exit) for 1..6-packet messages with/without attachments, with 0/1 surviving sender in another sim-process, observed by recv, try_recv, receiver set and router; descriptors of the dead process are reaped one per scheduling step. Exhaustive over crash points within these bounds; schedules are sampled.", "5/C12"),
 "C13": ("fault_enumeration", "deterministic simulation with ENOBUFS injected at every subset of the first 10 transmission attempts (2^10 patterns) per shape",
         "Every ENOBUFS pattern over the first 10 transmission attempts of one send x 5 shapes x attachments x 2 buffer sizes (20480 cases, the complete space stated in the property); oracle: Ok => exact message with probed attachments, Err => nothing delivered, follow-on message intact, no retry packet larger than the receiver's buffer, no livelock. Exhaustive over the fault patterns; receiver/sender interleavings are sampled.", "5/C13"),
 "C06": ("exploration", "deterministic simulation: seeded schedules of sender threads vs the selecting thread, EINTR and short epoll batches injected; per-member event-sequence model + lost-wake-up detection at quiescence",
         "1..64 members with bursts (up to 120 queued messages), members added before/with queued traffic/already disconnected/between selects, senders dropped or held, EINTR and short batches injected into epoll_wait; oracle: per member exactly its send sequence under the id add returned, exactly one closure and only when really disconnected, no duplicate ids, and nothing pending while the selector sleeps in select at quiescence. Sampling, not proof.", "5/C06"),
 "C07": ("exploration", "deterministic simulation: seeded schedules of registering threads, senders, consumers and the router thread; EINTR/short batches; per-route history oracle with drop guards",
         "1..32 routes (callbacks with drop guards, new crossbeam receivers, bounded caller-supplied crossbeam senders with slow consumers) registered from 1..8 threads with 0..50 messages queued before registration; oracle: each handler sees exactly its messages in order, nothing else, is dropped exactly once, only after its channel is really disconnected, and has been dropped at quiescence. Sampling, not proof.", "5/C07"),
 "C17": ("exploration", "deterministic simulation: seeded schedules of shutdown()/proxy drop racing add_route, traffic and the router thread; quiescence oracle (thread exited, guards fired, nobody blocked, no panic)",
         "Routers with 0..16 live routes and traffic in flight are stopped by shutdown() from 1..4 threads racing add_route from others, or by dropping the proxy, followed by further sends and add_route calls; oracle: no callback after shutdown returned, every callback registered before the call dropped by then, all handlers dropped and the router thread gone at quiescence, late routes never invoked, no panic, no deadlock. Sampling, not proof.", "5/C17"),
 "C14": ("exploration", "deterministic simulation: seeded programs of failing/nested/OS-rejected sends on one live thread with observer threads; quiescence oracle + nonce probes of every attachment",
         "Programs of sends whose Serialize fails after k items, sends from inside Serialize impls (depth <=3, failing or not, propagated or not), sends to a dead channel and a receive inside Deserialize, followed by plain traffic; the sending thread stays alive; oracle: channels of endpoints embedded in failed values disconnect (observers not blocked at quiescence, probes to embedded receivers fail), every delivered message has exactly its own attachments at their positions (nonce probes). Sampling, not proof.", "5/C14"),
 "C15": ("exploration", "deterministic simulation: complete enumeration of attachment count 0..300 x mixture x data part on real threads under seeded schedules; hang detection at quiescence, MSG_CTRUNC observed at the seam, nonce probes",
         "All 301 x 4 x 5 input shapes of the property are run (each with a probing receiver and a follow-up message): refused => channel still usable, accepted => every attachment present and correctly assigned, never a hang, panic or descriptor loss in transit. The input space is enumerated completely; schedules are sampled (the simulator contributes hang detection, seam observation and isolation).", "5/C15"),
 "C16": ("exploration", "deterministic simulation: seeded raw payloads + raw attachment lists, in-flight corruption injected at the seam, one sacrificial process per run; oracle on panics/aborts, foreign endpoints and released descriptors (ledger + watcher threads)",
         "Receivers of 12 types are fed valid, foreign-type, bad-index, duplicate-index, random, truncated and in-flight-corrupted messages with 0..8 attachments, directly or through a receiver set, decoded or dropped undecoded; oracle: result is Err or a value, no panic/abort, no endpoint that was not attached, every attached descriptor released afterwards. Sampling, not proof.", "5/C16"),
 "C04": ("exploration", "deterministic simulation: seeded nested values with embedded endpoints probed by nonce after receipt; receiver transfer chains over threads/sim-processes under seeded schedules with concurrent senders; history oracle",
         "Seeded nested values embedding up to 63 endpoints of all kinds and regions are sent (small and multi-packet) and every endpoint is compared by position and probed for identity; receivers hop 1..5 times between threads and sim-processes while senders keep sending; oracle: every successfully sent message reaches exactly one holder, in order. Sampling, not proof.", "5/C04"),
 "C05": ("exploration", "deterministic simulation: seeded region lengths/contents/clones, receiver as thread or sim-process, drop ordering and creator crash under seeded schedules; byte-equality oracle",
         "1..8 regions per message with lengths dense around 0/1/word/page boundaries, from_bytes and from_byte, cloned 0..3 times, compared byte for byte in the creator, every clone, the receiver, and again after the sender's copies, the message and the channel are gone or the creator's sim-process crashed. Largely an input property; the simulator adds process boundaries, drop/crash ordering and isolation. Sampling, not proof.", "5/C05"),
 "C08": ("exploration", "deterministic simulation: seeded orders of server creation, client connect/send/exit (clean or crash) and accept on real threads and sim-processes; descriptor ledger + temp-dir inspection + exec-child inheritance fault",
         "1..200 one-shot servers, used (client thread or sim-process with 1..20 messages, exiting or crashing before or after accept) or dropped unused; oracle: accept returns the first message, the receiver yields the rest in order (recv / try_recv / try_recv_timeout), names distinct, socket path and temp dir gone, no descriptor left in the ledger, listener never inherited by an exec'd child. Sampling, not proof.", "5/C08"),
 "C19": ("exploration", "deterministic simulation: seeded single-threaded programs generated online against an executable reference model (ideal unbounded FIFO channels with handles in transit, sets, one-shot servers); refinement check per operation on the OS, memfd and in-process builds; virtual clock; hang = divergence",
         "Each build runs the same seeded programs of <=60 operations over <=6 channels and every result (value, order, empty, disconnected, send failure, select events, accept) is compared with the reference model, hence with the other builds; a call that blocks where the model returns is caught by quiescence detection. One thread only: the schedule dimension is degenerate, the simulator contributes the virtual clock, hang detection, isolation and replay. Sampling, not proof.", "5/C19"),
 "C20": ("exploration", "deterministic simulation (async feature): seeded schedules of converting threads, senders, the routing thread and consumers (block_on and hand-rolled polling with a counting waker); EINTR/short batches; per-stream history oracle + lost-wake-up detection at quiescence",
         "1..32 streams created from 1..8 threads with 0..50 messages queued before conversion, senders dropped or held, consumers on their own threads, some streams dropped early; oracle: each stream yields exactly its messages in order, ends only after real disconnection and after all messages, and no consumer stays parked while a message or the end is pending. Sampling, not proof.", "5/C20"),
 "C01": ("exploration", "deterministic simulation: complete enumeration of lengths +-16 around the first four packet boundaries x 6 send-buffer sizes, plus seeded recursive serde values and payload sizes under seeded SO_SNDBUF, ENOBUFS refusals, receiver modes and schedules; byte-identity oracle, truncation observed at the seam",
         "All lengths within +-16 of each k x packet-capacity boundary (k=1..4) for six effective send-buffer sizes (one not 8-aligned) on bytes and typed channels are enumerated; seeded nested values (floats by bit pattern) and payloads up to 4 MiB (quick) / 64 MiB (thorough) are sent under varied buffer sizes, injected ENOBUFS (re-splitting) and receiver modes; oracle: re-serialised received value / payload is byte-identical, no packet exceeds the receiver's buffer. The value-shape dimension is ordinary seeded generation; the simulator contributes buffer-size configuration x split points x interleaving x blocking.", "5/C01"),
 "C11": ("exploration", "deterministic simulation: seeded API histories incl. failing operations (EMFILE injected at the seam, dead names, closed receivers, undecoded messages), repeated rounds; descriptor ledger + /proc/self/fd ground truth, mapping count, temp dir, FD_CLOEXEC audit after every operation, exec-child inheritance fault",
         "Seeded sequences of <=400 public-API operations over channels, shared memory, receiver sets, one-shot servers and routers, with EMFILE/ENFILE injected into descriptor-creating calls, run for several rounds in one process; after each round every handle is dropped in seeded order and the descriptor table (kernel view), shared mappings and temp dir must equal the baseline; no close may fail; after every operation every descriptor the library created or received must be close-on-exec. Sampling of histories, not proof.", "5/C11"),
 "C18": ("exploration", "deterministic simulation on the AddressSanitizer build (nightly, std unsafe-precondition checks on): the message shapes of C01/C04/C05/C12/C13/C15/C16 plus platform-level zero/odd-length regions, with canary-filled receive buffers and ASan shadow-memory checks of every buffer handed to the kernel at the seam",
         "The generators of C01, C04, C05, C12 (crashed transfers), C13 (ENOBUFS retries), C15 (0..300 attachments) and C16 (corrupt payloads) and platform-level region cases run under ASan with debug assertions; oracle: no sanitizer report, no precondition abort, no poisoned buffer handed to the kernel, received length/content equal to sent with canary-filled buffers, plus each generator's own oracle. A monitor riding on simulated runs: it samples, it does not prove.", "5/C18"),
}
PENDING = "check not built yet (work in progress in this session; will be claimed once its simulation scenario exists)"

def main():
    props = [json.loads(l) for l in open(os.path.join(ROOT, "properties.jsonl"))]
    checks, na = [], []
    for p in props:
        i = p["id"]
        if i in CHECKS:
            cat, tech, text, ref = CHECKS[i]
            checks.append({
                "property_id": i,
                "quick_cmd": "./run check %s --tier quick" % i,
                "thorough_cmd": "./run check %s --tier thorough" % i,
                "evidence_file": "/verif/evidence/%s.json" % i,
                "replay_cmd_template": "./run replay {path}",
                "engine": "ipcsim",
                "level_claimed": {"category": cat, "text": text, "design_ref": "DESIGN.md §" + ref},
                "level_note": COMMON_NOTE,
                "technique": tech,
            })
        else:
            na.append({"property_id": i, "reason": NA.get(i, PENDING)})
    m = {
        "version": 1,
        "setup_cmd": "./run setup",
        "hooks": {
            "guard": "cargo feature `verif-hooks` of /repo (off by default). The main seam needs no hook (link-time interposition of libc symbols inside the harness binary); two hooks add scheduling points where an interleaving contains no system call: a stand-in Arc in the unix back end (reference-count operations, commit 24abaec) and a stand-in Mutex in router.rs / asynch.rs (lock acquire and release, commit 56e3b6e); both call ipcsim_sched_point, which the harness defines",
            "enable": "cargo build --release --offline --features hook in /verif/harness (= ipc-channel/verif-hooks); only the `hook` variants of C02, C03, C07, C10 and C17 and the `asyhook` variant of C20 (features asy + hook) are built this way, every other variant builds /repo unmodified with the feature off",
            "baseline_off_cmd": "cd /repo && (cargo nextest run --workspace --no-fail-fast --tool-config-file pb:/w/lib/nextest.toml --profile pb --test-threads 8 --offline || cargo test --workspace --no-fail-fast --offline)",
            "source_commits": ["24abaec", "56e3b6e"],
            "add_only": True,
        },
        "engines": [{"name": "ipcsim", "path": "/verif/harness", "serves_properties": sorted(CHECKS.keys()),
                     "kind_free_text": "deterministic simulator: interposed libc seam, baton scheduler over real threads, virtual clock, fault injection, sim-processes with descriptor ledger, history oracles, ddmin minimiser, replay files"}],
        "checks": checks,
        "not_applicable": na,
        "notes": "exit 0 = held on everything explored (known findings printed as KNOWN-FINDING lines), 1 = VIOLATION line + replay file, 2 = harness error (never a verdict). VERIF_SEED selects the base seed (default 20261003).",
    }
    json.dump(m, open(os.path.join(ROOT, "MANIFEST.json"), "w"), indent=1)
    print("MANIFEST.json: %d checks, %d not_applicable" % (len(checks), len(na)))

NA = {}
if __name__ == "__main__":
    main()
