#!/usr/bin/env python3
"""Runs the registered quick checks against every seeded change in /verif/seeded and records the
result in seeded/<name>/meta.json and seeded/RESULTS.md.
usage: tools/mutant_matrix.py [--all] [name ...]   (--all: every check against every change)"""
import json, os, subprocess, sys, time
ROOT = os.path.dirname(os.path.dirname(os.path.abspath(__file__)))
SEEDED = os.path.join(ROOT, "seeded")
ALL = ["C%02d" % i for i in range(1, 21)]
SIBLINGS = {"C04_1": ["C14"], "C05_2": ["C14"], "C01_2": ["C13", "C18"], "C02_1": ["C06", "C19"], "C02_2": ["C06"], "C03_1": ["C10", "C08"], "C03_2": ["C11"],
            "C08_2": ["C03", "C10"], "C19_1": ["C06", "C02"], "C19_2": ["C10", "C03"], "C09_2": ["C11"], "C08_1": ["C11"], "C10_1": ["C04"], "C04_2": ["C10"],
            "C13_2": ["C18", "C16"], "C13_1": ["C01", "C18"], "C16_2": ["C18"], "C01_1": ["C18"], "C05_1": ["C18"]}

def run(cmd, **kw):
    return subprocess.run(cmd, stdout=subprocess.PIPE, stderr=subprocess.STDOUT, text=True, **kw)

def main():
    args = sys.argv[1:]
    every = "--all" in args
    names = [a for a in args if not a.startswith("--")] or sorted(d for d in os.listdir(SEEDED) if os.path.isdir(os.path.join(SEEDED, d)))
    if run(["git", "-C", "/repo", "diff", "--quiet"]).returncode != 0:
        print("/repo has uncommitted changes"); return 2
    head = run(["git", "-C", "/repo", "rev-parse", "--short", "HEAD"]).stdout.strip()
    rows = []
    for n in names:
        d = os.path.join(SEEDED, n)
        patch = os.path.join(d, "patch.diff")
        if not os.path.exists(patch):
            continue
        prop = n.split("_")[0]
        ids = ALL if every else [prop] + SIBLINGS.get(n, [])
        ap = run(["git", "-C", "/repo", "apply", patch])
        res = {}
        if ap.returncode != 0:
            res = {i: "PATCH-DOES-NOT-APPLY" for i in ids}
        else:
            try:
                for i in ids:
                    t = time.time()
                    p = run([os.path.join(ROOT, "run"), "check", i, "--tier", "quick"], cwd=ROOT, env=dict(os.environ, VERIF_NO_EVIDENCE="1", VERIF_REPLAY_DIR="/dev/shm/ipcsim-mutant-replays"))
                    sigs = [l.split("signature:")[1].strip() for l in p.stdout.split("\n") if "signature:" in l]
                    res[i] = {1: "CAUGHT", 0: "missed"}.get(p.returncode, "HARNESS-ERROR")
                    if sigs:
                        res[i] += " [" + "; ".join(sorted(set(sigs))[:4]) + "]"
                    res[i] += " (%.0fs)" % (time.time() - t)
            finally:
                run(["git", "-C", "/repo", "checkout", "--", "."])
        am = {}
        if os.path.exists(os.path.join(d, "agent_meta.json")):
            try:
                am = json.load(open(os.path.join(d, "agent_meta.json")))
            except Exception:
                am = {}
        cf = json.load(open(os.path.join(d, "confirm.json"))) if os.path.exists(os.path.join(d, "confirm.json")) else {}
        meta_path = os.path.join(d, "meta.json")
        meta = json.load(open(meta_path)) if os.path.exists(meta_path) else {}
        old = meta.get("checks_run", {})
        old.update(res)
        meta.update({
            "name": n, "property": prop,
            "summary": am.get("summary", meta.get("summary", "")),
            "needs_to_manifest": am.get("needs", meta.get("needs_to_manifest", "")),
            "demonstration": [f for f in os.listdir(d) if f.endswith(".rs")],
            "demo_cmd": am.get("demo_cmd", meta.get("demo_cmd", "")),
            "origin": "written by an independent sub-agent from the property text only (own scratch worktree, nothing from /verif); ported to the repaired tree where the surrounding code had changed",
            "confirmed": cf,
            "what_i_ran": "tools/confirm_mutant.sh seeded/%s (scratch worktree: patch applies, pinned suite passes with it, demonstration passes without it and fails with it); tools/mutant_matrix.py (git -C /repo apply patch.diff; ./run check <ID> --tier quick; git -C /repo checkout -- .)" % n,
            "repo_head_when_checked": head,
            "checks_run": old,
            "caught_by": sorted(i for i, v in old.items() if v.startswith("CAUGHT")),
        })
        json.dump(meta, open(meta_path, "w"), indent=1)
        rows.append((n, old))
        print(n, {i: v.split(" ")[0] for i, v in res.items()}, flush=True)
    subprocess.run(["rm", "-rf", "/dev/shm/ipcsim-mutant-replays"])
    # summary table over everything recorded so far
    lines = ["# Seeded changes vs checks (quick tier)", "", "| change | property | caught by | missed by |", "|---|---|---|---|"]
    for n in sorted(d for d in os.listdir(SEEDED) if os.path.isdir(os.path.join(SEEDED, d))):
        mp = os.path.join(SEEDED, n, "meta.json")
        if not os.path.exists(mp):
            continue
        m = json.load(open(mp))
        c = m.get("checks_run", {})
        lines.append("| %s | %s | %s | %s |" % (n, m["property"], ", ".join(sorted(i for i, v in c.items() if v.startswith("CAUGHT"))), ", ".join(sorted(i for i, v in c.items() if v.startswith("missed")))))
    open(os.path.join(SEEDED, "RESULTS.md"), "w").write("\n".join(lines) + "\n")
    return 0

if __name__ == "__main__":
    sys.exit(main())
