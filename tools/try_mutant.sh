#!/bin/bash
# usage: tools/try_mutant.sh <patch.diff> <ID> [<ID> ...]   [TIER=quick]
# Applies a seeded change to /repo, runs the registered checks for the given properties, undoes it.
# Prints one line per property: CAUGHT / MISSED / HARNESS-ERROR.
set -u
P=$(realpath "$1"); shift
TIER=${TIER:-quick}
cd /verif
if ! git -C /repo diff --quiet; then echo "/repo has uncommitted changes"; exit 2; fi
git -C /repo apply "$P" || { echo "patch does not apply"; exit 2; }
trap 'git -C /repo checkout -- . ' EXIT
for id in "$@"; do
  out=$(VERIF_NO_EVIDENCE=1 ./run check "$id" --tier "$TIER" 2>&1); rc=$?
  sig=$(echo "$out" | grep -A1 "^VIOLATION" | grep signature | head -3 | tr '\n' ' ')
  case $rc in
    1) echo "$id CAUGHT $sig";;
    0) echo "$id MISSED";;
    *) echo "$id HARNESS-ERROR $(echo "$out" | grep -E 'HARNESS|error' | head -2 | tr '\n' ' ')";;
  esac
done
